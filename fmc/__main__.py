import argparse
import os
import sys

sys.path.insert(0, os.path.dirname(os.path.dirname(os.path.abspath(__file__))))

from fmc import core  # noqa: E402


def main():
    ap = argparse.ArgumentParser(prog="fmc")
    sub = ap.add_subparsers(dest="cmd", required=True)
    c = sub.add_parser("check")
    c.add_argument("pid")
    c.add_argument("--tier", default=os.environ.get("VERIF_TIER", "quick"), choices=["quick", "thorough"])
    r = sub.add_parser("replay")
    r.add_argument("path")
    sub.add_parser("selftest")
    a = ap.parse_args()
    seed = int(os.environ.get("VERIF_SEED", "0") or 0)
    if a.cmd == "check":
        sys.exit(core.run_check(a.pid.upper(), a.tier, seed))
    if a.cmd == "replay":
        sys.exit(core.replay(a.path))
    if a.cmd == "selftest":
        from fmc import selftest

        sys.exit(selftest.main())


if __name__ == "__main__":
    main()

"""Shared machinery: binding to the tree under test, the exhaustive engine, accumulators,
known-findings triage, replay files and evidence files.

A *check module* (fmc/checks/cNN.py) provides

    ID            property id, e.g. "C02"
    RULE          words: what is enumerated and which cases count as non-trivial
    ASSUMPTIONS   list of strings
    units(tier, seed)        -> list of JSON-able work units (deterministic, simplest first)
    expand(unit)             -> iterable of JSON-able cases of that unit
    check_case(case, acc)    -> runs the real code on one case, records outcome / violations in acc
    classify(case, clause, sig, detail) -> structural class of a violating input (for KNOWN_FINDINGS)
    extra(tier, seed, acc)   -> optional dict merged into evidence coverage

Every unit is executed completely; nothing is sampled.  If a budget cap stops the enumeration the
evidence says exhaustive:false and names the cap.
"""
import hashlib
import importlib
import io
import json
import os
import signal
import sys
import time
import traceback
import contextlib
import multiprocessing as mp

VERIF = os.path.dirname(os.path.dirname(os.path.abspath(__file__)))
REPO = os.environ.get("FMC_REPO", "/repo")
FINDINGS_FILE = os.path.join(VERIF, "KNOWN_FINDINGS.txt")
EVIDENCE_DIR = os.path.join(VERIF, "evidence")
REPLAY_DIR = os.path.join(VERIF, "replays")
if os.path.realpath(REPO) != "/repo":
    # a scratch tree (seeded change, refactoring): never overwrite the evidence of /repo itself
    EVIDENCE_DIR = os.path.join("/tmp", "fmc_scratch_evidence", os.path.basename(os.path.realpath(REPO)))
    REPLAY_DIR = os.path.join("/tmp", "fmc_scratch_replays", os.path.basename(os.path.realpath(REPO)))
NPROC = int(os.environ.get("FMC_NPROC", "16"))


def bind():
    """Import formulae from the tree under test (FMC_REPO, default /repo) and make that a hard fact."""
    sys.dont_write_bytecode = True
    os.environ.setdefault("PYTHONDONTWRITEBYTECODE", "1")
    if REPO not in sys.path[:1]:
        sys.path.insert(0, REPO)
    import logging
    import formulae  # noqa

    real = os.path.realpath(formulae.__file__)
    if not real.startswith(os.path.realpath(REPO) + os.sep):
        raise SystemExit(f"fmc: formulae imported from {real}, not from {REPO}")
    logging.getLogger("formulae").setLevel(logging.CRITICAL)
    import warnings

    warnings.filterwarnings("ignore", category=DeprecationWarning)
    warnings.filterwarnings("ignore", category=FutureWarning)
    return formulae


def repo_head():
    import subprocess

    try:
        h = subprocess.run(
            ["git", "-C", REPO, "rev-parse", "--short", "HEAD"], capture_output=True, text=True
        ).stdout.strip()
        d = subprocess.run(
            ["git", "-C", REPO, "status", "--porcelain", "--", "formulae"],
            capture_output=True,
            text=True,
        ).stdout.strip()
        return h + ("+dirty" if d else "")
    except Exception:  # pragma: no cover
        return "unknown"


def jhash(obj, n=16):
    return hashlib.blake2b(
        json.dumps(obj, sort_keys=True, default=str).encode(), digest_size=n // 2
    ).hexdigest()


@contextlib.contextmanager
def quiet():
    """Swallow the prints of formulae's bare `except:` blocks."""
    old = sys.stdout
    sys.stdout = io.StringIO()
    try:
        yield
    finally:
        sys.stdout = old


def exc_sig(e):
    """Signature of an exception: type and the innermost formulae function that raised it."""
    tb = traceback.extract_tb(e.__traceback__)
    where = "?"
    for fr in reversed(tb):
        if os.sep + "formulae" + os.sep in fr.filename and os.sep + "fmc" + os.sep not in fr.filename:
            where = os.path.basename(fr.filename)[:-3] + "." + fr.name
            break
    return f"{type(e).__name__}@{where}"


class Acc:
    """Per-unit accumulator, merged by the engine."""

    MAX_VIOL = int(os.environ.get("FMC_MAX_VIOL", "400"))

    def __init__(self):
        self.evaluations = 0
        self.calls = 0  # transitions: calls into formulae / events executed
        self.traces = 0  # reference-model expectations replayed on the implementation
        self.outcomes = {}
        self.states = set()
        self.nontrivial = set()
        self.nstates_by_construction = 0
        self.viol = []
        self.nviol = 0
        self.samples = []
        self.tables = {}
        self.undecided = 0
        self.caps = []
        self.known = {}  # key of a KNOWN_FINDINGS line -> [count, example case, text]

    # -- recording ---------------------------------------------------------------------------
    def case(self, case, outcome, nontrivial=False, key=None, sample=True):
        self.evaluations += 1
        self.outcomes[outcome] = self.outcomes.get(outcome, 0) + 1
        k = key if key is not None else case
        h = hash(k) if isinstance(k, (str, tuple, int)) else hash(json.dumps(k, sort_keys=True, default=str))
        self.states.add(h)
        if nontrivial:
            self.nontrivial.add(h)
        if sample and (len(self.samples) < 3 or (nontrivial and len(self.samples) < 6)):
            self.samples.append({"case": case, "outcome": outcome})

    def bulk(self, n, outcome, nontrivial=0):
        """Count n cases at once (huge spaces where each case is a distinct string by construction)."""
        self.evaluations += n
        self.outcomes[outcome] = self.outcomes.get(outcome, 0) + n
        self.nstates_by_construction += n

    def subcases(self, prefix, n, nontrivial=True, outcome="sub-case"):
        """n distinct sub-cases of one case (e.g. the new frames tried for one formula), each really executed."""
        if n <= 0:
            return
        self.evaluations += n
        self.outcomes[outcome] = self.outcomes.get(outcome, 0) + n
        hp = hash(prefix if isinstance(prefix, (str, int, tuple)) else json.dumps(prefix, sort_keys=True, default=str))
        for i in range(n):
            h = hash((hp, i))
            self.states.add(h)
            if nontrivial:
                self.nontrivial.add(h)

    def violation(self, clause, sig, case, detail=""):
        self.nviol += 1
        if len(self.viol) < self.MAX_VIOL:
            self.viol.append({"clause": clause, "sig": sig, "case": case, "detail": str(detail)[:600]})

    def table(self, name, key, n=1):
        t = self.tables.setdefault(name, {})
        t[key] = t.get(key, 0) + n

    def merge(self, o):
        self.evaluations += o.evaluations
        self.calls += o.calls
        self.traces += o.traces
        self.undecided += o.undecided
        self.nstates_by_construction += o.nstates_by_construction
        for k, v in o.outcomes.items():
            self.outcomes[k] = self.outcomes.get(k, 0) + v
        self.states |= o.states
        self.nontrivial |= o.nontrivial
        for k, (n, ex, txt) in o.known.items():
            if k in self.known:
                self.known[k][0] += n
            else:
                self.known[k] = [n, ex, txt]
        self.nviol += o.nviol
        self.viol.extend(o.viol[: max(0, self.MAX_VIOL * 4 - len(self.viol))])
        for s in o.samples:
            if len(self.samples) < 12:
                self.samples.append(s)
        for name, t in o.tables.items():
            d = self.tables.setdefault(name, {})
            for k, v in t.items():
                d[k] = d.get(k, 0) + v
        self.caps.extend(o.caps)


class UnitTimeout(Exception):
    pass


def _alarm(signum, frame):
    raise UnitTimeout()


_MOD = None
_NUNITS = 0
_UNIT_TIMEOUT = 600
_FINDINGS = None


def _triage(mod, acc, start):
    """Move violations that match a recorded finding out of the violation list (so that they never use up the cap)."""
    global _FINDINGS
    if _FINDINGS is None:
        _FINDINGS = load_findings(mod.ID)
    if not _FINDINGS:
        return
    keep = []
    for v in acc.viol[start:]:
        try:
            cls = mod.classify(v["case"], v["clause"], v["sig"], v["detail"]) if hasattr(mod, "classify") else "-"
        except Exception:
            cls = "-"
        f = match_finding(_FINDINGS, v["clause"], v["sig"], cls)
        if f is None:
            keep.append(v)
        else:
            k = f.get("key", "?")
            if k in acc.known:
                acc.known[k][0] += 1
            else:
                acc.known[k] = [1, v["case"], f["text"]]
            acc.nviol -= 1
    acc.viol[start:] = keep


def _run_unit(args):
    idx, unit = args
    mod = _MOD
    acc = Acc()
    signal.signal(signal.SIGALRM, _alarm)
    signal.alarm(_UNIT_TIMEOUT)
    case = None
    stride = 2 if _NUNITS <= 200 else max(2, _NUNITS // 100)
    if idx % stride == 1 and getattr(mod, "WARMUP", True):
        # every second unit starts from a non-initial state: a history of ordinary operations comes first
        try:
            from fmc import warmup

            with quiet():
                warmup.run()
        except Exception:
            pass
    if idx % (4 if stride <= 2 else stride) == 2 and getattr(mod, "PERTURB", True):
        # ... and some units run with process-wide settings changed that no result may depend on
        try:
            from fmc import warmup

            warmup.perturb_settings()
        except Exception:
            pass
    try:
        for case in mod.expand(unit):
            nbefore = len(acc.viol)
            try:
                with quiet():
                    mod.check_case(case, acc)
                if len(acc.viol) > nbefore:
                    _triage(mod, acc, nbefore)
            except UnitTimeout:
                raise
            except Exception as e:  # an exception the oracle did not anticipate
                acc.violation(
                    "unexpected-exception",
                    exc_sig(e),
                    case,
                    "".join(traceback.format_exception(type(e), e, e.__traceback__))[-600:],
                )
    except UnitTimeout:
        acc.violation("timeout", "timeout", case, f"unit {idx} exceeded {_UNIT_TIMEOUT}s")
    finally:
        signal.alarm(0)
    for v in acc.viol:
        v["unit"] = idx
    return idx, acc


def _recheck_case(case, clause):
    a2 = Acc()
    try:
        with quiet():
            _MOD.check_case(case, a2)
        return any(x["clause"] == clause for x in a2.viol)
    except Exception:
        return clause == "unexpected-exception"


def run_units(mod, units, nproc=None, only=None):
    """Execute every unit (in parallel, deterministic merge order)."""
    global _MOD, _NUNITS
    _MOD = mod
    _NUNITS = len(units)
    total = Acc()
    nproc = nproc or NPROC
    todo = list(enumerate(units))
    if only is not None:
        todo = [x for x in todo if x[0] in only]
    if nproc <= 1 or len(todo) <= 1:
        res = [_run_unit(x) for x in todo]
    else:
        ctx = mp.get_context("fork")
        with ctx.Pool(min(nproc, len(todo)), maxtasksperchild=1) as pool:  # every unit starts from the parent's clean state
            res = pool.map(_run_unit, todo, chunksize=1)
    for _, acc in sorted(res, key=lambda r: r[0]):
        total.merge(acc)
    return total


# ---------------------------------------------------------------------------------------------
# known findings


def load_findings(pid):
    out = []
    if not os.path.exists(FINDINGS_FILE):
        return out
    for line in open(FINDINGS_FILE):
        line = line.strip()
        if not line.startswith("finding:"):
            continue
        head, _, text = line[len("finding:") :].partition("::")
        kv = {}
        for tok in head.split():
            if "=" in tok:
                k, v = tok.split("=", 1)
                kv[k] = v
        if kv.get("property") == pid:
            kv["text"] = text.strip()
            out.append(kv)
    return out


def match_finding(findings, clause, sig, cls):
    for f in findings:
        fc = f.get("class", "")
        if "|" in fc:  # any '+'-combination of the listed atoms
            atoms = set(fc.split("|"))
            cls_ok = cls != "-" and all(a in atoms for a in cls.split("+"))
        else:
            cls_ok = fc == cls
        if f.get("clause") == clause and cls_ok:
            fs = f.get("sig", "*")
            if fs == "*" or fs == sig or (fs.endswith("*") and sig.startswith(fs[:-1])):
                return f
    return None


# ---------------------------------------------------------------------------------------------
# replay / evidence


def write_replay(pid, v, cls):
    d = os.path.join(REPLAY_DIR, pid)
    os.makedirs(d, exist_ok=True)
    rec = {
        "property": pid,
        "clause": v["clause"],
        "signature": v["sig"],
        "class": cls,
        "case": v["case"],
        "detail": v["detail"],
        "history_unit": v.get("history_unit"),
        "repo_head": repo_head(),
    }
    path = os.path.join(d, jhash([pid, v["clause"], v["case"]]) + ".json")
    with open(path, "w") as f:
        json.dump(rec, f, indent=1, default=str)
    return path


def write_evidence(pid, tier, seed, acc, mod, wall, nviol, known, extra=None, exhaustive=True):
    os.makedirs(EVIDENCE_DIR, exist_ok=True)
    states = len(acc.states) + acc.nstates_by_construction
    cov = {
        "states": max(states, 1),
        "transitions": max(acc.calls, 1),
        "traces_validated_against_impl": acc.traces,
        "evaluations": acc.evaluations,
        "distinct_nontrivial": len(acc.nontrivial),
        "rule": mod.RULE,
        "samples": acc.samples[:12] or [{"case": None, "outcome": "no cases"}],
        "exhaustive": bool(exhaustive and not acc.caps),
        "caps_hit": acc.caps,
        "outcome_classes": dict(sorted(acc.outcomes.items())),
        "tables": acc.tables,
        "undecided_numerical": acc.undecided,
        "states_counted": "measured set of distinct case hashes"
        + (
            f" + {acc.nstates_by_construction} strings distinct by construction of the enumeration"
            if acc.nstates_by_construction
            else ""
        ),
        "known_findings_observed": known,
        "repo_head": repo_head(),
        "workers": NPROC,
    }
    if extra:
        cov.update(extra)
    ev = {
        "property_id": pid,
        "tier": tier,
        "seed": seed,
        "level": "model_checking",
        "coverage": cov,
        "assumptions": list(getattr(mod, "ASSUMPTIONS", [])),
        "wall_s": round(wall, 2),
        "violations": nviol,
    }
    path = os.path.join(EVIDENCE_DIR, pid + ".json")
    try:
        import jsonschema

        schema = json.load(open("/root/.vp/EVIDENCE.schema.json"))
        jsonschema.validate(json.loads(json.dumps(ev, default=str)), schema)
    except ImportError:  # pragma: no cover
        pass
    except FileNotFoundError:  # pragma: no cover
        pass
    with open(path, "w") as f:
        json.dump(ev, f, indent=1, default=str)
    return path


def load_check(pid):
    return importlib.import_module(f"fmc.checks.{pid.lower()}")


def run_check(pid, tier, seed):
    t0 = time.time()
    bind()
    mod = load_check(pid)
    if hasattr(mod, "prepare"):
        mod.prepare(tier, seed)
    units = mod.units(tier, seed)
    if os.environ.get("FMC_SUBRUN"):
        # a sub-run in another interpreter mode (python -O): a few units only, violations dumped for the parent, nothing else written
        only = {int(i) for i in os.environ["FMC_ONLY_UNITS"].split(",")}
        acc = run_units(mod, units, only=only)
        findings = load_findings(pid)
        out = []
        for v in acc.viol:
            try:
                cls = mod.classify(v["case"], v["clause"], v["sig"], v["detail"]) if hasattr(mod, "classify") else "-"
            except Exception:
                cls = "-"
            if match_finding(findings, v["clause"], v["sig"], cls) is None:
                out.append(v)
        with open(os.environ["FMC_DUMP"], "w") as f:
            json.dump(out, f, default=str)
        return 0
    acc = run_units(mod, units)
    if getattr(mod, "OPTIMIZED_SUBRUN", True) and len(units) > 0:
        _optimized_subrun(pid, tier, seed, units, acc)
    extra = mod.extra(tier, seed, acc) if hasattr(mod, "extra") else None

    findings = load_findings(pid)
    known = {k: {"n": n, "example": ex, "text": txt} for k, (n, ex, txt) in acc.known.items()}
    real = []
    for v in acc.viol:
        try:
            cls = mod.classify(v["case"], v["clause"], v["sig"], v["detail"]) if hasattr(mod, "classify") else "-"
        except Exception:
            cls = "-"
        f = match_finding(findings, v["clause"], v["sig"], cls)
        if f is not None:
            k = f.get("key", "?")
            known.setdefault(k, {"n": 0, "example": v["case"], "text": f["text"]})
            known[k]["n"] += 1
        else:
            real.append((v, cls))
    truncated = acc.nviol - len(acc.viol)
    if os.environ.get("FMC_DUMP"):
        with open(os.environ["FMC_DUMP"], "w") as f:
            json.dump([dict(v, cls=c) for v, c in real], f, default=str)

    # a violation is reported only if it reproduces: first alone in a fresh forked process, then - for
    # history-dependent failures - by replaying its whole unit in another fresh process
    confirmed = []
    global _MOD
    _MOD = mod
    ctx = mp.get_context("fork")
    for v, cls in real[:40]:
        if v["clause"] == "timeout" or getattr(mod, "NO_RECHECK", False) or v.get("optimized"):
            confirmed.append((v, cls))
            continue
        with ctx.Pool(1) as pool:
            again = pool.apply(_recheck_case, (v["case"], v["clause"]))
        if not again and "unit" in v:
            with ctx.Pool(1) as pool:
                _, a3 = pool.apply(_run_unit, ((v["unit"], units[v["unit"]]),))
            if any(x["clause"] == v["clause"] and x["case"] == v["case"] for x in a3.viol):
                again = True
                v["history_unit"] = units[v["unit"]]
                v["detail"] += " [history-dependent: reproduces only after the earlier cases of its unit]"
        if again:
            confirmed.append((v, cls))
        else:
            print(f"HARNESS-ERROR: violation did not reproduce in a fresh process: {v['clause']} {v['case']!r}")
            write_evidence(pid, tier, seed, acc, mod, time.time() - t0, len(real), known, extra)
            return 2

    for k, info in sorted(known.items()):
        print(f"KNOWN-FINDING: property={pid} {info['text']} ({info['n']} cases, e.g. {json.dumps(info['example'], default=str)[:160]})")
    for v, cls in confirmed[:20]:
        path = write_replay(pid, v, cls)
        print(f"VIOLATION property={pid} replay={path}")
        print(f"  clause={v['clause']} sig={v['sig']} class={cls} case={json.dumps(v['case'], default=str)[:300]}")
        print(f"  {v['detail'][:300]}")
    if len(real) > 20:
        print(f"  ... {len(real)} unsuppressed violations recorded ({truncated} more not recorded)")
    wall = time.time() - t0
    write_evidence(pid, tier, seed, acc, mod, wall, len(real), {k: v["n"] for k, v in known.items()}, extra)
    print(
        f"{pid} tier={tier} seed={seed} cases={acc.evaluations} states={len(acc.states) + acc.nstates_by_construction} "
        f"calls={acc.calls} traces={acc.traces} nontrivial={len(acc.nontrivial)} "
        f"violations={len(real)} known={sum(v['n'] for v in known.values())} wall={wall:.1f}s"
    )
    return 1 if real else 0


def _optimized_subrun(pid, tier, seed, units, acc):
    """The interpreter's -O switch (PYTHONOPTIMIZE) removes assert statements and must change no result: up to six units,
    evenly spread, are run again in a `python -O` interpreter; a violation there that the normal run of the same unit
    did not have is reported (after it showed in two separate -O interpreters)."""
    import subprocess
    import tempfile

    n = len(units)
    pick = sorted({round(i * (n - 1) / 5) for i in range(6)}) if n > 6 else list(range(n))
    normal = {(v.get("unit"), v["clause"], json.dumps(v["case"], sort_keys=True, default=str)) for v in acc.viol}
    seen = None
    for attempt in range(2):
        with tempfile.NamedTemporaryFile(suffix=".json", delete=False) as tf:
            dump = tf.name
        env = dict(os.environ, FMC_SUBRUN="1", FMC_ONLY_UNITS=",".join(map(str, pick)), FMC_DUMP=dump, FMC_REPO=REPO, VERIF_SEED=str(seed), PYTHONDONTWRITEBYTECODE="1")
        r = subprocess.run([sys.executable, "-O", "-m", "fmc", "check", pid, "--tier", tier], cwd=VERIF, env=env, capture_output=True, text=True)
        try:
            got = json.load(open(dump))
        except Exception:
            got = [{"clause": "optimized-subrun-failed", "sig": "subrun", "case": {"units": pick}, "detail": (r.stderr or r.stdout)[-400:], "unit": None}]
        finally:
            try:
                os.unlink(dump)
            except OSError:
                pass
        keyed = {(v.get("unit"), v["clause"], json.dumps(v["case"], sort_keys=True, default=str)): v for v in got}
        seen = keyed if seen is None else {k: v for k, v in seen.items() if k in keyed}
        if not seen:
            break
    acc.bulk(len(pick), "units-rerun-under-python-O")
    for k, v in (seen or {}).items():
        if k in normal:
            continue
        acc.violation("under-python-O:" + v["clause"], v["sig"], v["case"], "only when the interpreter runs with -O / PYTHONOPTIMIZE (assert statements removed): " + v["detail"])
        acc.viol[-1]["optimized"] = True


def replay(path):
    rec = json.load(open(path))
    bind()
    mod = load_check(rec["property"])
    if hasattr(mod, "prepare"):
        mod.prepare("quick", int(os.environ.get("VERIF_SEED", "0")))
    acc = Acc()
    try:
        with quiet():
            mod.check_case(rec["case"], acc)
    except Exception as e:
        acc.violation("unexpected-exception", exc_sig(e), rec["case"], repr(e))
    if rec.get("history_unit") is not None:
        global _MOD
        _MOD = mod
        acc0 = acc
        ctx = mp.get_context("fork")
        with ctx.Pool(1) as pool:
            _, acc = pool.apply(_run_unit, ((0, rec["history_unit"]),))
        acc.viol += acc0.viol
        acc.viol = [v for v in acc.viol if v["case"] == rec["case"]]
    print(json.dumps({"case": rec["case"], "violations": acc.viol}, indent=1, default=str)[:4000])
    if hasattr(mod, "snippet"):
        print("---- standalone reproduction ----")
        print(mod.snippet(rec["case"]))
    if any(v["clause"] == rec["clause"] for v in acc.viol):
        print(f"VIOLATION property={rec['property']} replay={path}")
        return 1
    print("replay: no violation of clause", rec["clause"])
    return 0

"""Data-frame builders shared by the checks (deterministic for a given seed)."""
import itertools

import numpy as np
import pandas as pd

LEVEL_NAMES = {
    "f": ["fa", "fb", "fc", "fd", "fe", "ff", "fg", "fh"],
    "g": ["g1", "g2", "g3", "g4", "g5", "g6", "g7", "g8"],
    "h": ["hx", "hy", "hz", "hw", "hv", "hu", "ht", "hs"],
    "f2": ["p", "q", "r", "s"],
    "k": [9, 10, -2, 30],  # string order differs from numeric order
}


def factorial(levels, reps=2, numeric=("x", "z"), seed=0, shuffle=True, extra=None):
    """Replicated complete factorial: `levels` maps a categorical column name to its number of levels
    (labels from LEVEL_NAMES) or to an explicit list of labels.  Numeric columns get one generic draw."""
    names = list(levels)
    labs = []
    for n in names:
        v = levels[n]
        labs.append(list(v) if isinstance(v, (list, tuple)) else LEVEL_NAMES[n][:v])
    rows = [r for r in itertools.product(*labs)] * reps
    rng = np.random.RandomState(1000 + seed)
    if shuffle:
        rng.shuffle(rows)
    df = pd.DataFrame(rows, columns=names) if names else pd.DataFrame(index=range(4 * reps))
    n = len(df)
    for c in numeric:
        df[c] = np.round(rng.normal(size=n) * 3 + 5, 3)  # generic, positive-ish, 3 decimals
    df["y"] = np.round(rng.normal(size=n), 3)
    if extra:
        for k, v in extra.items():
            df[k] = v
    return df


def indicators(col, levels=None):
    """Complete level-indicator matrix of a column (levels sorted unless given)."""
    vals = list(col)
    if levels is None:
        levels = sorted(set(vals))
    return np.array([[1.0 if v == l else 0.0 for l in levels] for v in vals]), levels


def rowprod(blocks):
    """Row-wise Kronecker product, first block varying slowest."""
    out = None
    for b in blocks:
        b = np.asarray(b, dtype=float)
        if b.ndim == 1:
            b = b[:, None]
        if out is None:
            out = b
        else:
            out = np.einsum("ij,ik->ijk", out, b).reshape(out.shape[0], -1)
    return out

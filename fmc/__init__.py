"""fmc - bounded exhaustive model checker for bambinos/formulae (see /verif/DESIGN.md)."""

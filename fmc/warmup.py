"""A short history of ordinary public operations executed before the cases of every second unit, so that the
checks also explore the library from a non-initial process state ("start from non-initial states too").

Everything here is legitimate use and leaves the configuration at its default.  If any of it changes what a later,
unrelated call returns, the checks see it as an ordinary violation of their property.  The names, formulas and
level sets deliberately collide with the ones the checks use (caches keyed by formula text, name or id)."""
import warnings

import numpy as np
import pandas as pd


def frame(shift=0.0, levels=("a", "b", "c"), n=9):
    i = np.arange(n)
    return pd.DataFrame({
        "y": np.round(np.sin(i + shift) + 2, 3), "x": np.round(i * 0.75 + 1 + shift, 3), "z": np.round(np.cos(i) * 2 + 5 + shift, 3),
        "f": [levels[k % len(levels)] for k in i], "g": [["g1", "g2"][(k // 2) % 2] for k in i], "h": [["hx", "hy", "hz"][(k * 2) % 3] for k in i],
        "k": [[10, -2, 9][k % 3] for k in i], "s": [k % 4 for k in i], "n": [5 + k % 2 for k in i],
    })


FORMULAS = [
    "y ~ scale(x) + f", "y ~ x + (x|g)", "y ~ center(x) + poly(z, 2) + bs(x, df=4) + C(f, Sum) + (scale(x)|g)", "y ~ f*g + (0 + f|g:h) + (1|h:g)",
    "y ~ T(f, 'b') + S(f) + C(k) + binary(f, 'a') + offset(z)", "prop(s, n) ~ x + I(x * z) + {z / x}", "y ~ x", "y ~ f:g + x:f", "y ~ np.log(x) + standardize(z)",
]


def run():
    try:
        import formulae
        from formulae import design_matrices, model_description
    except Exception:
        return
    with warnings.catch_warnings():
        warnings.simplefilter("ignore")
        try:
            designs = []
            for d, fr in ((frame(), "first"), (frame(30.0, ("a", "b", "d"), 7), "second")):
                for f in FORMULAS:
                    try:
                        designs.append((design_matrices(f, d), d))
                    except Exception:
                        pass
            formulae.config["EVAL_UNSEEN_CATEGORIES"] = "silent"
            for dm, d in designs:
                nd = d.iloc[[4, 1, 1]].copy()
                nd["f"] = ["zz", nd["f"].iloc[1], nd["f"].iloc[2]]
                nd["g"] = [nd["g"].iloc[0], "gNEW", nd["g"].iloc[2]]
                nd.index = [7, 3, 3]
                for M in (dm.common, dm.group):
                    if M is None:
                        continue
                    try:
                        r1 = M.evaluate_new_data(nd)
                        r1.evaluate_new_data(d.iloc[::-1])
                        M.evaluate_new_data(nd)
                        str(r1)
                    except Exception:
                        pass
                if dm.response is not None and dm.response.kind == "proportion":
                    try:
                        dm.response.evaluate_new_data(nd)
                    except Exception:
                        pass
            for bad in ("ignore", None):
                try:
                    formulae.config["EVAL_UNSEEN_CATEGORIES"] = bad
                except Exception:
                    pass
            for s in ("y ~ a*b/c + (x | g + h)", "y~a *b", "a + f(x, 2) : b", "y ~ `my var` + f(x, k='s')", "y ~ (a + b + c) ** 2 - a:b"):
                try:
                    model_description(s)
                except Exception:
                    pass
        finally:
            formulae.config["EVAL_UNSEEN_CATEGORIES"] = "error"


def perturb_settings():
    """Process-wide settings a user may have changed and a design must not depend on: numpy print options, pandas display
    options, the random-number state, the working directory.  (Not the numpy error state or the warnings filters: those
    legitimately change what raises / warns.)"""
    import os
    import random

    import numpy as np
    import pandas as pd

    np.set_printoptions(precision=2, threshold=3, edgeitems=1, linewidth=30, suppress=True, floatmode="fixed", sign=" ", legacy="1.13")
    try:
        pd.set_option("future.infer_string", False)  # text columns created from now on are object-typed (the documented opt-out)
    except Exception:
        pass
    for opt, val in (("display.max_rows", 4), ("display.max_columns", 3), ("display.precision", 1), ("display.width", 30), ("display.max_colwidth", 6)):
        pd.set_option(opt, val)
    np.random.seed(12345)
    random.seed(5)
    os.chdir("/")

"""Rank / span decisions with a gap check (DESIGN.md 2.5)."""
import numpy as np

TOL = 1e-8
GAP_LO, GAP_HI = 1e-11, 1e-5


class Undecided(Exception):
    pass


def _norm(M):
    M = np.asarray(M, dtype=float)
    if M.ndim == 1:
        M = M[:, None]
    if M.shape[1] == 0:
        return M
    nrm = np.sqrt((M * M).sum(axis=0))
    nrm[nrm == 0] = 1.0
    return M / nrm


def rank(M):
    M = _norm(M)
    if M.size == 0 or M.shape[1] == 0:
        return 0
    if not np.isfinite(M).all():
        raise Undecided("non-finite entries")
    s = np.linalg.svd(M, compute_uv=False)
    if s[0] == 0:
        return 0
    rel = s / s[0]
    if ((rel > GAP_LO) & (rel < GAP_HI)).any():
        raise Undecided(f"singular value in the gap: {rel}")
    return int((rel > TOL).sum())


def span_report(X, R):
    """-> dict(ncol, rank_x, rank_r, rank_both); X spans exactly R iff rank_x == rank_r == rank_both."""
    X = np.asarray(X, dtype=float)
    if X.ndim == 1:
        X = X[:, None]
    rx = rank(X)
    rr = rank(R)
    rb = rank(np.column_stack([_norm(X), _norm(R)]))
    return {"ncol": X.shape[1], "rank_x": rx, "rank_r": rr, "rank_both": rb}


def same_span(X, R):
    r = span_report(X, R)
    return r["rank_x"] == r["rank_r"] == r["rank_both"], r

"""Reference tokenizer and precedence-climbing recogniser for the formula language.

Written from the documented token list and precedence table, not from formulae's parser:

    =  <  ~  <  |  <  comparisons  <  + -  <  * /  <  :  <  **  <  unary + -  <  call / subscript / atom

All binary operators are left-associative.  The recogniser is deliberately *generous*: every operator
may appear at every nesting depth and any primary may be called.  (A comma is a separator: after it another argument
must follow - a trailing comma would be a token without any effect.)  The
implementation is free to reject any sentence; what it may not do is accept a string that is not even a
sentence of this generous grammar (left-over tokens, unbalanced brackets, two operands in a row ...).
The set of sentences does not depend on the precedence table; only the trees do.
"""

WS = " \n\t\r"
CMP = ("==", "!=", "<=", "<", ">=", ">")
BIN_PREC = {"=": 0, "~": 1, "|": 2, "+": 4, "-": 4, "*": 5, "/": 5, ":": 6, "**": 7}
for _c in CMP:
    BIN_PREC[_c] = 3


class Reject(Exception):
    pass


def tokenize(s):
    """-> list of (kind, lexeme, literal); raises Reject."""
    if len(s) == 0:
        raise Reject("empty")
    out = []
    i, n = 0, len(s)
    while i < n:
        c = s[i]
        if c in WS:
            i += 1
            continue
        if c in "'\"":
            j = i + 1
            while j < n and s[j] not in "'\"":
                j += 1
            if j >= n:
                raise Reject("unterminated string")
            out.append(("STR", s[i : j + 1], s[i + 1 : j]))
            i = j + 1
            continue
        if c == "`":
            j = s.find("`", i + 1)
            if j < 0:
                raise Reject("unterminated backquote")
            out.append(("BQ", s[i : j + 1], None))
            i = j + 1
            continue
        if c in "()[]{},+-%~:|":
            out.append((c, c, None))
            i += 1
            continue
        if c == ".":
            if i + 1 < n and s[i + 1].isdigit():
                j = i + 1
                while j < n and s[j].isdigit():
                    j += 1
                out.append(("NUM", s[i:j], float(s[i:j])))
                i = j
            else:
                out.append((".", ".", None))
                i += 1
            continue
        two = s[i : i + 2]
        if c in "/*!=<>":
            if two in ("//", "**", "!=", "==", "<=", ">="):
                out.append((two, two, None))
                i += 2
            else:
                out.append((c, c, None))
                i += 1
            continue
        if c.isdigit():
            j = i
            while j < n and s[j].isdigit():
                j += 1
            if j + 1 < n and s[j] == "." and s[j + 1].isdigit():
                j += 1
                while j < n and s[j].isdigit():
                    j += 1
                out.append(("NUM", s[i:j], float(s[i:j])))
            else:
                out.append(("NUM", s[i:j], int(s[i:j])))
            i = j
            continue
        if c.isalpha():
            j = i
            while j < n and (s[j].isalnum() or s[j] in "._"):
                j += 1
            w = s[i:j]
            if w in ("True", "False", "None"):
                out.append(("PYLIT", w, {"True": True, "False": False, "None": None}[w]))
            else:
                out.append(("ID", w, None))
            i = j
            continue
        raise Reject(f"unexpected character {c!r}")
    if sum(1 for t in out if t[0] == "~") > 1:
        raise Reject("more than one ~")
    return out


def augment(tokens):
    """Insert the implicit intercept '1 +' after '~', or at the start when there is no '~'."""
    one = ("NUM", "1", 1)
    plus = ("+", "+", None)
    for i, t in enumerate(tokens):
        if t[0] == "~":
            return tokens[: i + 1] + [one, plus] + tokens[i + 1 :]
    return [one, plus] + tokens


class P:
    """Precedence climbing over a token list; nodes carry their token span (a, b)."""

    def __init__(self, tokens):
        self.t = tokens
        self.i = 0

    def kind(self):
        return self.t[self.i][0] if self.i < len(self.t) else None

    def parse(self):
        if not self.t:
            raise Reject("no tokens")
        e = self.expr(0)
        if self.i != len(self.t):
            raise Reject("left-over tokens")
        return e

    def expr(self, minp):
        left = self.operand()
        while True:
            k = self.kind()
            p = BIN_PREC.get(k)
            if p is None or p < minp:
                return left
            self.i += 1
            right = self.expr(p + 1)  # left-associative
            left = ("bin", k, left, right, (left[-1][0], right[-1][1]))

    def operand(self):
        a = self.i
        k = self.kind()
        if k in ("+", "-"):
            self.i += 1
            x = self.operand()
            return ("un", k, x, (a, x[-1][1]))
        return self.postfix()

    def postfix(self):
        a = self.i
        e = self.primary()
        while self.kind() == "(":
            self.i += 1
            args = []
            if self.kind() != ")":
                while True:
                    args.append(self.expr(0))
                    if self.kind() == ",":
                        self.i += 1
                        continue
                    break
            if self.kind() != ")":
                raise Reject("expected )")
            self.i += 1
            e = ("call", e, args, (a, self.i))
        return e

    def primary(self):
        a = self.i
        k = self.kind()
        if k == "ID":
            self.i += 1
            if self.kind() == "[":
                self.i += 1
                lvl = self.operand()
                if self.kind() != "]":
                    raise Reject("expected ]")
                self.i += 1
                return ("sub", self.t[a][1], lvl, (a, self.i))
            return ("atom", self.t[a][1], (a, self.i))
        if k in ("NUM", "STR", "BQ", "PYLIT"):
            self.i += 1
            return ("atom", self.t[a][1], (a, self.i))
        if k == "(":
            self.i += 1
            e = self.expr(0)
            if self.kind() != ")":
                raise Reject("expected )")
            self.i += 1
            return ("grp", e, (a, self.i))
        if k == "{":
            self.i += 1
            e = self.expr(0)
            if self.kind() != "}":
                raise Reject("expected }")
            self.i += 1
            return ("brace", e, (a, self.i))
        raise Reject(f"unexpected token {k!r}")


def parse(tokens):
    return P(tokens).parse()


def is_sentence(tokens):
    try:
        P(tokens).parse()
        return True
    except Reject:
        return False
    except RecursionError:  # pragma: no cover
        return False


def paren(node, toks, top=True, wrap=None):
    """Fully parenthesised rendering.  Text inside calls, braces and subscripts is kept verbatim
    (what an argument means is C12's business).  `wrap`: optional set of spans to wrap once more."""
    k = node[0]
    span = node[-1]
    extra = wrap is not None and span in wrap

    def fin(s, composite):
        if composite and not top:
            s = "(" + s + ")"
        if extra:
            s = "(" + s + ")"
        return s

    if k == "atom":
        return fin(node[1], False)
    if k in ("call", "sub", "brace"):
        return fin(" ".join(t[1] for t in toks[span[0] : span[1]]), False)
    if k == "grp":
        return fin("(" + paren(node[1], toks, True, wrap) + ")", False)
    if k == "un":
        s = node[1] + paren(node[2], toks, False, wrap)
        return fin(s, True)
    if k == "bin":
        op = node[1]
        s = paren(node[2], toks, False, wrap) + " " + op + " " + paren(node[3], toks, False, wrap)
        if op == "~" and top:
            return s  # the formula operator itself is never wrapped
        return fin(s, True)
    raise ValueError(node)


def deep_paren(node, toks, top=True):
    """Fully parenthesised rendering *including* the inside of calls, braces and subscripts (for AST comparison)."""
    k = node[0]
    if k == "atom":
        return node[1]
    if k == "grp":
        return "(" + deep_paren(node[1], toks, True) + ")"
    if k == "brace":
        return "{" + deep_paren(node[1], toks, True) + "}"
    if k == "sub":
        return f"{node[1]} [ {deep_paren(node[2], toks, True)} ]"
    if k == "call":
        args = []
        for a in node[2]:
            if a[0] == "bin" and a[1] == "=":
                args.append(deep_paren(a[2], toks, True) + " = " + deep_paren(a[3], toks, False))
            else:
                args.append(deep_paren(a, toks, True))
        return deep_paren(node[1], toks, False) + " ( " + " , ".join(args) + " )"
    if k == "un":
        s = node[1] + " " + deep_paren(node[2], toks, False)
        return s if top else "(" + s + ")"
    if k == "bin":
        s = deep_paren(node[2], toks, False) + " " + node[1] + " " + deep_paren(node[3], toks, False)
        return s if (top or node[1] == "~") else "(" + s + ")"
    raise ValueError(node)


def spans(node, inside=False):
    """Spans of all sub-expressions that may be wrapped in redundant parentheses (not inside calls)."""
    k = node[0]
    out = []
    if k == "bin":
        if node[1] != "~":
            out.append(node[-1])
        out += spans(node[2]) + spans(node[3])
    elif k == "un":
        out.append(node[-1])
        out += spans(node[2])
    elif k == "grp":
        out.append(node[-1])
        out += spans(node[1])
    elif k in ("atom", "call", "brace", "sub"):
        out.append(node[-1])
    return out


def binops(node):
    k = node[0]
    if k == "bin":
        return [node[1]] + binops(node[2]) + binops(node[3])
    if k == "un":
        return binops(node[2])
    if k == "grp":
        return binops(node[1])
    return []

"""Reference model of the Wilkinson-Rogers / lme4 term algebra on plain frozensets.

Nothing here comes from formulae's code.  An expression is a nested tuple:

    ("a", text)            atom: variable name or call text (one factor)
    ("lit", "0"|"1"|"-1")  intercept literal (only as an item of an additive chain)
    (op, L, R)             op in + - : * /
    ("**", L, n)           power, n a positive int
    ("|", E, G)            group-specific term

Value of an expression: Val(terms, icpt, groups)
    terms  : frozenset of frozensets of factor texts
    icpt   : None (intercept not mentioned) | True (added last) | False (removed last)
    groups : frozenset of (effect, factor) with effect a frozenset of factor texts or "1"
"""
from itertools import combinations


class Degenerate(Exception):
    """The documented definition does not say what this expression means (not compared)."""


class Val:
    __slots__ = ("terms", "icpt", "groups")

    def __init__(self, terms=frozenset(), icpt=None, groups=frozenset()):
        self.terms = frozenset(terms)
        self.icpt = icpt
        self.groups = frozenset(groups)


def ev(node):
    k = node[0]
    if k == "a":
        return Val({frozenset([node[1]])})
    if k == "lit":
        return Val(icpt=(node[1] == "1"))
    if k == "+":
        l, r = ev(node[1]), ev(node[2])
        return Val(l.terms | r.terms, r.icpt if r.icpt is not None else l.icpt, l.groups | r.groups)
    if k == "-":
        l, r = ev(node[1]), ev(node[2])
        icpt = l.icpt
        if r.icpt is not None:  # "- 1" removes, "- 0" (= - (-1)) adds
            icpt = not r.icpt
        return Val(l.terms - r.terms, icpt, l.groups - r.groups)
    if k in (":", "*", "/"):
        l, r = ev(node[1]), ev(node[2])
        if l.groups or r.groups or l.icpt is not None or r.icpt is not None:
            raise Degenerate("interaction operator applied to an intercept literal or a group term")
        if k == ":":
            return Val({s | t for s in l.terms for t in r.terms})
        if k == "*":
            return Val(l.terms | r.terms | {s | t for s in l.terms for t in r.terms})
        if not l.terms:
            raise Degenerate("a/b with no factor on the left")
        allf = frozenset().union(*l.terms)
        return Val(l.terms | {allf | t for t in r.terms})
    if k == "**":
        l, n = ev(node[1]), node[2]
        if l.groups or l.icpt is not None:
            raise Degenerate("power of an intercept literal or a group term")
        ts = list(l.terms)
        out = set()
        for i in range(1, n + 1):
            for comb in combinations(ts, i):
                out.add(frozenset().union(*comb))
        return Val(out)
    if k == "|":
        e, g = ev(node[1]), ev(node[2])
        if e.groups or g.groups or g.icpt is not None:
            raise Degenerate("nested group term / literal on the grouping side")
        effects = set(e.terms)
        if e.icpt is not False:
            effects.add("1")
        return Val(groups={(x, f) for x in effects for f in g.terms})
    raise ValueError(node)


def model_of(rhs, with_implicit_intercept=True):
    """Reference model of a right-hand side: (term set, has_intercept, group set)."""
    v = ev(rhs)
    icpt = v.icpt if v.icpt is not None else with_implicit_intercept
    return v.terms, bool(icpt), v.groups


# ---------------------------------------------------------------------------------------------
# rendering: additive chains flat (left-nested), every other composite operand parenthesised


def _is_add(n):
    return n[0] in "+-" and len(n) == 3


def render(node):
    k = node[0]
    if k == "a":
        return node[1]
    if k == "lit":
        return node[1]
    if k in "+-" and len(node) == 3:
        return f"{render(node[1])} {k} {operand(node[2])}"
    if k in (":", "*", "/"):
        sep = ":" if k == ":" else f" {k} "
        return f"{operand(node[1])}{sep}{operand(node[2])}"
    if k == "**":
        return f"{operand(node[1])}**{node[2]}"
    if k == "|":
        return f"({render(node[1])} | {render(node[2])})"
    raise ValueError(node)


def operand(node):
    if node[0] in ("a", "lit", "|"):
        return render(node)
    return "(" + render(node) + ")"


def trees(leaves, atoms, ops):
    """All binary operator trees with exactly `leaves` leaves (every shape, operator and atom choice)."""
    if leaves == 1:
        for a in atoms:
            yield ("a", a)
        return
    for k in range(1, leaves):
        for l in trees(k, atoms, ops):
            for r in trees(leaves - k, atoms, ops):
                for op in ops:
                    yield (op, l, r)

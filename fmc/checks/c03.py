"""C03 - common-effects matrix: full column rank, spans exactly the model space (DESIGN.md 3, C03)."""
import itertools

import numpy as np

from fmc import frames
from fmc.refmodel import linalg

ID = "C03"
RULE = (
    "(A) every family of non-empty subsets of the categorical factors (3 two-level factors in the quick tier, 4 "
    "in the thorough tier; further level-count vectors over {2,3}) with and without intercept, in every term "
    "order for families of <= 4 terms and sorted/reversed/rotated beyond; (B) every ordered family of <= 2 (<= 3) "
    "terms whose factors are ordered tuples of length 1-3 over f g h x (z); (C) atom substitutions C/T/S/scale/"
    "poly/bs; each design is built on replicated complete-factorial data with generic numeric columns and its "
    "common matrix compared (rank, span) with the complete-indicator reference matrix.  Non-trivial: the design "
    "has at least one term with a categorical factor together with another factor or term"
    "  Added: number-like / boolean-like / empty level names; the design's own frame evaluated as new data is "
    'held to the same rank and span clauses; a design built on a later frame (fewer levels) that the first '
    'design evaluated as new data. '
    'Later: 1200-row frames laid out cell by cell with shared level names, a column 1e8 + small under scale / '
    'center, NaN / inf in the matrix counts as a violation, the data-frame view overwritten by the caller. '
)
ASSUMPTIONS = [
    "rank decisions by SVD with a gap check (ambiguous cases are counted as undecided, never as violations)",
    "numeric columns in general position: one seeded generic draw (rank deficiency is Zariski-closed)",
    "numeric transform atoms (scale/poly/bs) are taken from a one-term design of the implementation; their values are C14's business",
]

CAT = {"f", "g", "h", "k", "f2"}
NUM = {"x", "z"}


def subsets(fs):
    out = []
    for n in range(1, len(fs) + 1):
        out += [list(c) for c in itertools.combinations(fs, n)]
    return out


def orders(terms, seed):
    """Term orders to explore for one family."""
    terms = sorted(terms, key=lambda t: (len(t), t))
    if len(terms) <= 4:
        return [list(p) for p in itertools.permutations(terms)]
    r = (seed % (len(terms) - 1)) + 1
    return [terms, terms[::-1], terms[r:] + terms[:r]]


def units(tier, seed):
    u = []
    # (A) family space
    fs = ["f", "g", "h"] if tier == "quick" else ["f", "g", "h", "f2"]
    all_terms = subsets(fs)
    base_lv = {f: 2 for f in fs}
    n = len(all_terms)
    fam_count = 0
    block = []
    for mask in range(1, 2 ** n):
        fam = [all_terms[i] for i in range(n) if mask >> i & 1]
        if tier == "thorough" and len(fam) > 4:
            ords = orders(fam, seed)
        else:
            ords = orders(fam, seed)
        for o in ords:
            for icpt in (True, False):
                block.append({"terms": o, "icpt": icpt, "lv": base_lv})
        if len(block) >= 400:
            u.append(block)
            block = []
    if block:
        u.append(block)
    if tier == "quick":  # four factors: all families of <= 2 terms (the four-way interaction needs three rounds of helper terms)
        fs4 = ["f", "g", "h", "f2"]
        t4 = subsets(fs4)
        block = []
        for fam in [[t] for t in t4] + [[a, b] for a in t4 for b in t4 if a != b]:
            for icpt in (True, False):
                block.append({"terms": fam, "icpt": icpt, "lv": {f: 2 for f in fs4}})
        for i in range(0, len(block), 120):
            u.append(block[i : i + 120])
    # other level-count vectors: sorted and reversed term order
    vecs = [v for v in itertools.product([2, 3], repeat=3) if v != (2, 2, 2)]
    fs3 = ["f", "g", "h"]
    t3 = subsets(fs3)
    for v in vecs if tier == "thorough" else [vecs[seed % len(vecs)], (3, 3, 3)]:
        block = []
        for mask in range(1, 2 ** len(t3)):
            fam = sorted([t3[i] for i in range(len(t3)) if mask >> i & 1], key=lambda t: (len(t), t))
            for o in (fam, fam[::-1]):
                for icpt in (True, False):
                    block.append({"terms": o, "icpt": icpt, "lv": dict(zip(fs3, v))})
        u.append(block)
    # (B) ordered families of ordered factor tuples over mixed variables
    vars_b = ["f", "g", "h", "x"] if tier == "quick" else ["f", "g", "h", "x", "z"]
    tuples = [list(p) for n_ in (1, 2, 3) for p in itertools.permutations(vars_b, n_)]
    if tier == "thorough":
        tuples = [t for t in tuples if len(t) < 3 or len(set(t) & NUM) <= 2]
    lvb = {"f": 3, "g": 2, "h": 2}
    block = []
    for t in tuples:
        for icpt in (True, False):
            block.append({"terms": [t], "icpt": icpt, "lv": lvb})
    u.append(block)
    for t1 in tuples:
        block = []
        for t2 in tuples:
            if set(t1) == set(t2):
                continue
            for icpt in (True, False):
                block.append({"terms": [t1, t2], "icpt": icpt, "lv": lvb})
        u.append(block)
    # a factor with a falsy level name ('' / 0)
    block = []
    tf = [list(p) for n_ in (1, 2) for p in itertools.permutations(["f", "g", "x"], n_)]
    for fam in [[t] for t in tf] + [[t1, t2] for t1 in tf for t2 in tf if set(t1) != set(t2)]:
        for icpt in (True, False):
            block.append({"terms": fam, "icpt": icpt, "lv": {"f": ["", "fb", "fc"], "g": ["0", "g1"]}})
    u.append(block)
    # string levels that read like numbers, booleans or None are level names all the same
    block = []
    for fam in [[t] for t in tf] + [[t1, t2] for t1 in tf for t2 in tf if set(t1) != set(t2)]:
        for icpt in (True, False):
            block.append({"terms": fam, "icpt": icpt, "lv": {"f": ["1", "2", "10"], "g": ["0", "1"]}})
            block.append({"terms": fam, "icpt": icpt, "lv": {"f": ["True", "False", "None"], "g": ["1.5", "-2e3"]}})
    u.append(block)
    # more than a thousand rows, laid out cell by cell (not shuffled); two factors share their level names, so their columns
    # start and end with the same values
    block = []
    tl = [list(p) for n_ in (1, 2, 3) for p in itertools.permutations(["f", "g", "h"], n_)]
    for fam in [[t] for t in tl] + [[["f"], ["g"]], [["f"], ["g"], ["h"]], [["g"], ["f"], ["f", "g"]], [["f"], ["g"], ["h"], ["f", "g", "h"]], [["f", "x"], ["g"]], [["h"], ["g", "x"], ["f"]]]:
        for icpt in (True, False):
            block.append({"terms": fam, "icpt": icpt, "lv": {"f": ["no", "yes"], "g": ["no", "yes"], "h": ["no", "maybe", "yes"]}, "reps": 100, "sorted": True})
    u.append(block)
    # the same transform on two different variables in one design
    block = []
    for a1, a2 in (("poly(x, 2)", "poly(z, 2)"), ("scale(x)", "scale(z)"), ("poly(x, 2)", "poly(z, 3)"), ("center(x)", "scale(z)")):
        for fam in ([["x"], ["z"]], [["z"], ["x"]], [["x"], ["f", "z"]], [["f", "x"], ["z"]], [["x", "z"]], [["x"], ["z"], ["x", "z"]], [["f", "x"], ["f", "z"]]):
            for icpt in (True, False):
                block.append({"terms": fam, "icpt": icpt, "lv": {"f": 3, "g": 2, "k": 3}, "sub": ["x", a1, "z", a2]})
    u.append(block)
    # two numerics in quick too (numeric-part order), small
    tz = [list(p) for n_ in (1, 2, 3) for p in itertools.permutations(["f", "x", "z"], n_)]
    block = []
    for t1 in tz:
        for t2 in tz:
            if set(t1) != set(t2):
                for icpt in (True, False):
                    block.append({"terms": [t1, t2], "icpt": icpt, "lv": {"f": 3}, "reps": 4})
    u.append(block)
    # ordered families of three terms with two numeric parts (interleaved numeric groups)
    mixed = [["f", "x"], ["g", "z"], ["f", "g", "x"], ["f", "z"], ["g", "x"], ["f", "g", "z"], ["x"], ["z"], ["f"], ["x", "z"]]
    trip = [list(p) for p in itertools.permutations(mixed, 3)]
    for i in range(0, len(trip), 90):
        u.append([{"terms": t, "icpt": icpt, "lv": {"f": 3, "g": 2}, "reps": 4} for t in trip[i : i + 90] for icpt in (True, False)])
    if tier == "thorough":
        short = [t for t in tuples if len(t) <= 2]
        for t1 in short:
            block = []
            for t2 in short:
                for t3_ in short:
                    if len({frozenset(t1), frozenset(t2), frozenset(t3_)}) == 3:
                        block.append({"terms": [t1, t2, t3_], "icpt": True, "lv": lvb})
                        block.append({"terms": [t1, t2, t3_], "icpt": False, "lv": lvb})
            u.append(block)
    # (C) atom substitution in every family of <= 2 terms over f g x
    subs = [("f", "C(k)"), ("f", "T(f, 'fb')"), ("f", "S(f)"), ("f", "C(f, Sum)"), ("f", "T(f, ref='fc')"),
            ("x", "scale(x)"), ("x", "poly(x, 2)"), ("x", "bs(x, df=4)"), ("x", "center(x)")]
    tup_c = [list(p) for n_ in (1, 2, 3) for p in itertools.permutations(["f", "g", "x"], n_)]
    tup_n = [list(p) for n_ in (1, 2, 3) for p in itertools.permutations(["f", "x", "z"], n_)]  # numeric-only interactions too
    for var, atom in subs:
        block = []
        tc = tup_c if var == "f" else tup_c + [t for t in tup_n if "z" in t]
        fams = [[t] for t in tc] + [[t1, t2] for t1 in tc for t2 in tc if set(t1) != set(t2) and not ("g" in t1 + t2 and "z" in t1 + t2)]
        for fam in fams:
            if not any(var in t for t in fam):
                continue
            for icpt in (True, False):
                block.append({"terms": fam, "icpt": icpt, "lv": {"f": 3, "g": 2, "k": 3}, "sub": [var, atom]})
        u.append(block)
    # a numeric column very far from zero compared with its spread (1e8 + small), seen only through scale / center
    block = []
    for atom in ("scale(x)", "center(x)", "standardize(x)"):
        for fam in ([["x"]], [["f"], ["x"]], [["f", "x"]], [["x"], ["f", "x"]], [["g"], ["f", "x", "g"]], [["x", "f"], ["f"]]):
            for icpt in (True, False):
                block.append({"terms": fam, "icpt": icpt, "lv": {"f": 3, "g": 2, "k": 3}, "sub": ["x", atom], "far": True})
    u.append(block)
    return u


def expand(unit):
    return unit


_FRAMES = {}
_SEED = 0


def prepare(tier, seed):
    global _SEED
    _SEED = seed


def frame_for(lv, reps=2, laid_out=False):
    key = (tuple(sorted((k, tuple(v) if isinstance(v, list) else v) for k, v in lv.items())), reps, laid_out)
    if key not in _FRAMES:
        df = frames.factorial(lv, reps=reps, seed=_SEED, shuffle=not laid_out)
        if laid_out:  # cell by cell: all replicates of a cell are adjacent
            df = df.sort_values(list(lv), kind="stable").reset_index(drop=True)
        _FRAMES[key] = df
    return _FRAMES[key]


def atom_text(name, sub):
    if sub and name == sub[0]:
        return sub[1]
    if sub and len(sub) > 2 and name == sub[2]:
        return sub[3]
    return name


def formula_of(case):
    sub = case.get("sub")
    ts = [":".join(atom_text(f, sub) for f in t) for t in case["terms"]]
    return "y ~ " + ("" if case["icpt"] else "0 + ") + " + ".join(ts)


_NUMCACHE = {}


def atom_columns(name, sub, df):
    """Reference columns of one factor: complete indicators for categoricals, values for numerics."""
    from formulae import design_matrices

    text = atom_text(name, sub)
    if name in CAT:
        col = df["k"] if text == "C(k)" else df[name]
        return frames.indicators(col)[0]
    if text == name:
        return df[name].to_numpy(dtype=float)[:, None]
    v = df[name].to_numpy(dtype=float)
    # closed-form references for the transforms whose span is known (independent of the library's own state)
    if text.startswith("poly("):
        deg = int(text.split(",")[1].strip(" )"))
        Q, _ = np.linalg.qr(np.column_stack([v ** k for k in range(deg + 1)]))
        return Q[:, 1:]
    if text.startswith("scale(") or text.startswith("standardize("):
        return ((v - v.mean()) / v.std())[:, None]
    if text.startswith("center("):
        return (v - v.mean())[:, None]
    key = (text, len(df), df[name].to_numpy(dtype=float).tobytes())  # (by content: the id of a frame that is gone gets reused)
    if key not in _NUMCACHE:
        _NUMCACHE[key] = np.asarray(design_matrices("0 + " + text, df).common.design_matrix, dtype=float)
    return _NUMCACHE[key]


def reference(case, df):
    sub = case.get("sub")
    blocks = []
    if case["icpt"]:
        blocks.append(np.ones((len(df), 1)))
    for t in case["terms"]:
        blocks.append(frames.rowprod([atom_columns(f, sub, df) for f in t]))
    return np.column_stack(blocks)


def nontrivial(case):
    return any(len(t) > 1 and set(t) & CAT for t in case["terms"]) or (
        len(case["terms"]) > 1 and any(set(t) & CAT for t in case["terms"])
    )


def check_case(case, acc):
    from formulae import design_matrices
    from fmc.core import exc_sig

    df = frame_for(case["lv"], case.get("reps", 2), case.get("sorted", False))
    if case.get("far"):
        df = df.copy()
        df["x"] = 1e8 + (df["x"] - 5.0) / 3.0
    f = formula_of(case)
    acc.calls += 1
    acc.traces += 1
    if case.get("sub"):
        # not from the initial state: the same formula text was used before on another data set
        try:
            other = frame_for(case["lv"], 3).copy()
            other["x"] = other["x"] * 2 + 30
            design_matrices(f, other)
            acc.calls += 1
        except Exception:
            pass
    try:
        dm = design_matrices(f, df)
        X = np.asarray(dm.common.design_matrix, dtype=float)
    except Exception as e:
        acc.case(f, "raises", sample=False)
        acc.violation("design-exists", exc_sig(e), case, f"{f!r} raised {type(e).__name__}: {e}")
        return
    verdict = decide(f, case, df, X)
    if verdict is None:  # the data-frame view is the caller's: overwriting it leaves the design matrix as it was
        try:
            view = dm.common.as_dataframe()
            view.iloc[:, :] = 0
            v0 = decide(f, case, df, np.asarray(dm.common.design_matrix, dtype=float))
            if v0 not in (None, "undecided"):
                verdict = (v0[0], v0[1], "after the caller zeroed the frame it got from as_dataframe(): " + v0[2])
        except Exception as e:
            verdict = ("design-exists", exc_sig(e), f"as_dataframe() / overwriting it raised {type(e).__name__}: {e}")
    if verdict is None:  # the matrix the design gives for its own frame as new data is held to the same clauses
        acc.calls += 1
        try:
            v1 = decide(f, case, df, np.asarray(dm.common.evaluate_new_data(df).design_matrix, dtype=float))
        except Exception as e:
            v1 = ("design-exists", exc_sig(e), f"raised {type(e).__name__}: {e}")
        if v1 not in (None, "undecided"):
            verdict = (v1[0], v1[1], "evaluate_new_data on the training frame: " + v1[2])
    if verdict == "undecided":
        acc.undecided += 1
        acc.case(f, "undecided", sample=False)
        return
    if verdict is None:
        # not from the initial state either: the design evaluated a later frame with fewer levels, then a design is built on
        # that very frame (every factor with three or more levels loses its last one)
        keep = np.ones(len(df), dtype=bool)
        for name in case["lv"]:
            lvls = sorted(set(df[name].tolist()))
            if len(lvls) >= 3:
                keep &= (df[name] != lvls[-1]).to_numpy()
        buildable = False
        if not keep.all() and keep.sum() >= 4:
            later = df[keep].reset_index(drop=True)
            try:  # a formula naming the removed level (T(f, ref='fc')) is rightly refused on that frame: not compared
                pristine = design_matrices(f, later.copy())
                buildable = np.asarray(pristine.common.design_matrix).shape[1] < len(later)  # else the frame is saturated: no full rank possible
            except Exception:
                acc.bulk(1, "later-frame-refused")
        if buildable:
            acc.calls += 3
            try:
                dm.common.evaluate_new_data(later)
            except Exception:
                pass
            try:
                X2 = np.asarray(design_matrices(f, later).common.design_matrix, dtype=float)
                v2 = decide(f, case, later, X2)
            except Exception as e:
                v2 = ("design-exists", exc_sig(e), f"raised {type(e).__name__}: {e}")
            if v2 not in (None, "undecided"):
                verdict = (v2[0], v2[1], "on the frame of the remaining levels, after the first design evaluated that frame as new data: " + v2[2])
    if verdict is not None:
        acc.case(f, verdict[0], sample=False)
        acc.violation(verdict[0], verdict[1], case, f"{f!r}: {verdict[2]}")
        return
    acc.case([f, case["lv"], case.get("reps", 2), case.get("sub")], "ok", nontrivial=nontrivial(case))


def generic_position(case, df, rank_r):
    """True when the model space on df has the dimension it has for generic numeric data (same cells, three times the rows,
    fresh numeric draws)."""
    import pandas as pd

    big = pd.concat([df] * 3, ignore_index=True)
    rng = np.random.RandomState(4242)
    for c in ("x", "z"):
        if c in big:
            lo, hi = float(df[c].min()), float(df[c].max())
            big[c] = np.round(lo + (hi - lo) * rng.uniform(size=len(big)), 4)
            big.loc[: len(df) - 1, c] = df[c].to_numpy()  # (the original rows stay: ranges, knots and fitted parameters are unchanged)
    try:
        return linalg.rank(reference(case, big)) <= rank_r
    except Exception:
        return True


def decide(f, case, df, X):
    """None when X has full column rank and spans the model space on df; 'undecided'; or (clause, sig, message)."""
    if not np.isfinite(X).all():
        return ("full-column-rank", "not-finite", "the matrix holds NaN / inf for finite data")
    R = reference(case, df)
    try:
        ok, rep = linalg.same_span(X, R)
    except linalg.Undecided:
        return "undecided"
    if (rep["rank_x"] != rep["ncol"] or not ok) and not generic_position(case, df, rep["rank_r"]):
        return "undecided"  # on this frame the numeric columns are not in general position for this formula (e.g. a spline basis
        # function that vanishes on all rows of a cell): the model space is smaller here than for generic data
    if rep["rank_x"] != rep["ncol"]:
        return ("full-column-rank", "rank-loss", f"{rep['ncol']} columns of rank {rep['rank_x']} (model space has dimension {rep['rank_r']})")
    if not ok:
        return ("spans-model-space", "span", f"column space has dimension {rep['rank_x']}, model space {rep['rank_r']}, joint {rep['rank_both']}")
    return None


def classify(case, clause, sig, detail):
    terms = case["terms"]
    sub = case.get("sub")
    sets = [frozenset(t) for t in terms]
    # numeric part of a mixed term written in another order than the stand-alone numeric term
    for t in terms:
        nums = [f for f in t if f in NUM]
        if len(nums) >= 2 and set(t) & CAT:
            for u in terms:
                if set(u) == set(nums) and list(u) != nums:
                    return "numeric-part-written-in-another-order"
    if sub and sub[0] in CAT and any(len(t) > 1 and sub[0] in t for t in terms):
        return "interaction-with-categorical-call"
    return "-"


def snippet(case):
    return (
        "import numpy as np\nfrom fmc import frames\nfrom formulae import design_matrices\n"
        f"df = frames.factorial({case['lv']!r}, reps={case.get('reps', 2)}, seed=0)\n"
        f"X = design_matrices({formula_of(case)!r}, df).common.design_matrix\n"
        "print(X.shape, np.linalg.matrix_rank(X))"
    )

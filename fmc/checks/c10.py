"""C10 - unseen levels and new groups at prediction follow the configured policy (DESIGN.md 3, C10)."""
import itertools
import warnings

import numpy as np
import pandas as pd

from fmc import frames

ID = "C10"
RULE = (
    "every design of the pool (categorical predictors alone, in interactions, via C/T/S; group designs with "
    "numeric/categorical effects, composite and multiple factors) x every placement of unseen values in a 3-row new "
    "frame (every non-empty row subset per variable, variables combined pairwise) x the three modes; plus every "
    "history of <= 3 events over {set error, set warning, set silent, evaluate common, evaluate group} on the same "
    "frame object, and the configuration-validation cases.  Expected matrices are derived from the evaluation of "
    "the same frame with the unseen cells replaced by a seen level.  Non-trivial: the placement touches a variable "
    "that occurs in an interaction, a composite factor or a categorical effect"
    '  Added: new data that kept non-default index labels or stores its factors as pandas categoricals, unseen '
    'values extending a training level, designs with explicit levels= (C / T / S, also as grouping factor), an '
    'object column mixing integer ids with a text value; expectations come from a separate reference design. '
    "Later: separate Config objects, a 9 x 8 crossed grouping factor, each term's block read through the "
    'result. '
)
ASSUMPTIONS = [
    "behaviour of unseen *groups* in 'error' mode is not demanded",
    "only warnings raised from formulae's own files count as formulae's warnings",
]

# design = (common terms, group terms); a term is a list of atoms; group term = (effect terms incl. "1", zero?, factor atoms)
VAR = {"f": "f", "g": "g", "h": "h", "x": "x", "C(k)": "k", "T(f, 'fb')": "f", "S(f)": "f", "C(f, Sum)": "f", "f2": "f2",
       "C(f, levels=flv)": "f", "T(f, levels=flv)": "f", "S(f, levels=flv)": "f", "C(g, levels=glv)": "g", "C(k, levels=klv)": "k"}
flv, glv, klv = ["fc", "fa", "fb"], ["g2", "g1"], [10, -2, 9]  # explicit level orders the formulas refer to (caller globals)
CATVARS = {"f", "g", "h", "k", "f2"}
DESIGNS = [
    "y ~ f", "y ~ 0 + f", "y ~ f:g", "y ~ f + g + f:g", "y ~ f:x", "y ~ x + f:x", "y ~ C(k)", "y ~ 0 + C(k):f",
    "y ~ T(f, 'fb')", "y ~ S(f)", "y ~ 0 + S(f)", "y ~ C(f, Sum):g", "y ~ f*g*x", "y ~ f + (1|g)",
    "y ~ (1|g)", "y ~ x + (x|g)", "y ~ (f|g)", "y ~ (0 + f|g)", "y ~ (x|g) + (x|h)", "y ~ (x|g:h)", "y ~ (x|C(k))",
    "y ~ C(f, levels=flv)", "y ~ 0 + T(f, levels=flv):g", "y ~ S(f, levels=flv) + x", "y ~ (x|C(g, levels=glv))", "y ~ (0 + C(f, levels=flv)|h)", "y ~ C(k, levels=klv)",
    "y ~ (x|h) + (1|g)", "y ~ (0 + x|g) + (f|h)", "y ~ f + (f:x|g)", "y ~ (1|g/h)", "y ~ (0 + f:f2|g)", "y ~ (S(f)|g)",
]
MODES = ["error", "warning", "silent"]
_DF = None


def train():
    global _DF
    if _DF is None:
        _DF = frames.factorial({"f": 3, "f2": 2, "g": 2, "h": 2, "k": 3}, reps=1, seed=3)
    return _DF


def wide_frame():
    """72 rows: a 9 x 8 crossing of g and h (more than 64 cells for the factor g:h)."""
    df = frames.factorial({"g": [f"g{i}" for i in range(1, 10)], "h": [f"h{i}" for i in range(1, 9)]}, reps=1, seed=4)
    n = len(df)
    df["f"] = [["fa", "fb", "fc"][i % 3] for i in range(n)]
    df["f2"] = [["p", "q"][(i // 3) % 2] for i in range(n)]
    df["k"] = [[9, 10, -2][(i // 2) % 3] for i in range(n)]
    return df


def parse(formula):
    """Structure of a pool formula: common terms and group terms with their variables."""
    rhs = formula.split("~")[1].strip()
    common, group = [], []
    depth, cur, items = 0, "", []
    for ch in rhs:
        if ch == "(":
            depth += 1
        if ch == ")":
            depth -= 1
        if ch == "+" and depth == 0:
            items.append(cur.strip())
            cur = ""
        else:
            cur += ch
    items.append(cur.strip())
    return items


def atoms_of(text):
    """Variables mentioned in a term text."""
    out = set()
    for a, v in VAR.items():
        if a in text:
            out.add(v)
    for v in ("f2",):
        if v in text:
            out.add(v)
    # 'f' is a substring of 'f2' and of C(f, ...): handled by VAR; strip false positives
    import re

    names = set(re.findall(r"[A-Za-z_][A-Za-z0-9_]*", text))
    return {v for v in names if v in {"f", "f2", "g", "h", "k", "x"}}


_NROWS = 3
_HDEPTH = 3


def prepare(tier, seed):
    global _NROWS, _HDEPTH
    if tier == "thorough":
        _NROWS, _HDEPTH = 4, 4


def units(tier, seed):
    u = []
    for d in DESIGNS:
        u.append([{"kind": "placement", "design": d}])
    for d in ("y ~ (x|g:h)", "y ~ x + (0 + x|h:g) + (1|g)", "y ~ g:h"):  # a crossed factor with more than 64 cells
        u.append([{"kind": "placement", "design": d, "wide": True}])
    hd = ["y ~ f + (x|g)", "y ~ 0 + f:g + (f|h)"] + (["y ~ C(k) + (0 + f|g:h)", "y ~ S(f) + (x|g) + (1|h)"] if tier == "thorough" else [])
    for d in hd:
        u.append([{"kind": "history", "design": d}])
    u.append([{"kind": "config"}])
    return u


def expand(unit):
    return unit


def base_rows():
    df = train()
    return df.iloc[[0, 7, 19, 30][:_NROWS]].reset_index(drop=True)


def unseen_value(var, i):
    if var == "k":
        return 900 + i
    first = sorted(set(train()[var]))[0]
    return [f"NEW{i}", first + "x" * (i + 1), first + "0"][i % 3]  # also values that merely extend a training level


def placements(vars_, tier="quick"):
    rows = list(range(_NROWS))
    subs = [list(c) for n in range(1, _NROWS + 1) for c in itertools.combinations(rows, n)]
    out = []
    for v in vars_:
        for s in subs:
            out.append({v: s})
    for v1, v2 in itertools.combinations(vars_, 2):
        for s1 in subs:
            for s2 in subs:
                out.append({v1: s1, v2: s2})
    return out


IDX = [7, 2, 5, 11]


def make_frames(pl, reindex=False, catdtype=False, kstr=False):
    nd = base_rows().copy()
    if reindex:  # new data that was filtered / sorted: labels are not 0..n-1
        nd.index = IDX[: len(nd)]
    clean = nd.copy()
    for v, rows in pl.items():
        col = nd[v].astype(object).copy()
        for i in rows:
            col.iloc[i] = unseen_value(v, i) if not (kstr and v == "k") else f"other{i}"
        nd[v] = col if (v != "k" or kstr) else col.astype(int)  # kstr: an object column mixing the integer ids with a text value
    if catdtype:  # the new data stores its factors as pandas categoricals (categories: training levels + the unseen values)
        for v in pl:
            cats = list(dict.fromkeys(sorted(set(train()[v])) + list(nd[v])))
            nd[v] = pd.Categorical(nd[v], categories=cats)
            clean[v] = pd.Categorical(clean[v], categories=cats)
    return nd, clean


def set_mode(m):
    import formulae

    formulae.config["EVAL_UNSEEN_CATEGORIES"] = m


def run_eval(M, nd):
    """-> (matrix object or None, exception or None, [formulae warnings], [foreign warnings])"""
    with warnings.catch_warnings(record=True) as rec:
        warnings.simplefilter("always")
        try:
            out, exc = M.evaluate_new_data(nd), None
        except Exception as e:
            out, exc = None, e
    # formulae warns with plain UserWarning; pandas' own deprecation warnings are attributed to the calling file
    ours = [w for w in rec if w.category is UserWarning and "/formulae/" in (w.filename or "") and "/fmc/" not in (w.filename or "")]
    return out, exc, ours


def expected_common(dm, nd, clean, pl):
    set_mode("error")
    base = np.array(dm.common.evaluate_new_data(clean).design_matrix, dtype=float)
    exp = base.copy()
    for name, sl in dm.common.slices.items():
        vs = atoms_of(name)
        for v, rows in pl.items():
            if v in vs:
                exp[rows, sl] = 0.0
    return exp


def expected_group(dm, nd, clean, pl):
    """Expected widened group matrix, slices and factors_with_new_levels."""
    set_mode("error")
    gclean = dm.group.evaluate_new_data(clean)
    blocks, slices, fwnl, start = [], {}, [], 0
    for name, term in dm.group.terms.items():
        eff, fac = name.split("|")
        Z = np.array(gclean[name], dtype=float)
        ncell = len(term.groups)
        p = Z.shape[1] // ncell
        E = sum(Z[:, l * p : (l + 1) * p] for l in range(ncell))
        for v, rows in pl.items():
            if v in atoms_of(eff):
                E[rows, :] = 0.0
                Z[rows, :] = 0.0
        newrows = sorted({r for v, rows in pl.items() if v in atoms_of(fac) for r in rows})
        if newrows:
            Z[newrows, :] = 0.0
            extra = np.zeros((Z.shape[0], p))
            extra[newrows, :] = E[newrows, :]
            Z = np.column_stack([Z, extra])
            if fac not in fwnl:
                fwnl.append(fac)
        blocks.append(Z)
        slices[name] = (start, start + Z.shape[1])
        start += Z.shape[1]
    return np.column_stack(blocks), slices, tuple(fwnl)


def check_placement(case, acc):
    from formulae import design_matrices
    from fmc.core import exc_sig

    d = case["design"]
    set_mode("error")
    if case.get("wide"):
        global _DF
        _DF = wide_frame()
    dm = design_matrices(d, train())
    acc.calls += 1
    used = sorted(atoms_of(d.split("~")[1]) & CATVARS)
    problems = {}
    n = 0
    for pl, reindex, catd, kstr in [(p_, r_, c_, k_) for p_ in placements(used) for r_, c_, k_ in ((False, False, False), (True, False, False), (False, True, False), (False, False, True)) if not k_ or "k" in p_]:
        nd, clean = make_frames(pl, reindex, catd, kstr)
        common_vars = set()
        if dm.common is not None:
            for name in dm.common.terms:
                common_vars |= atoms_of(name)
        eff_vars, fac_vars = set(), set()
        if dm.group is not None:
            for name in dm.group.terms:
                e, f_ = name.split("|")
                eff_vars |= atoms_of(e)
                fac_vars |= atoms_of(f_)
        for mode in MODES:
            n += 1
            # ---- common
            if dm.common is not None:
                hit = [v for v in pl if v in common_vars]
                exp = expected_common(dm, nd, clean, pl)
                set_mode(mode)
                out, exc, ours = run_eval(dm.common, nd)
                acc.calls += 2
                acc.traces += 1
                tag = f"{d!r} mode={mode} unseen={pl}" + (" (frame index " + str(IDX[: len(nd)]) + ")" if reindex else "") + (" (categorical dtype)" if catd else "") + (" (object column: integer ids and a text value)" if kstr else "")
                if mode == "error" and hit:
                    if exc is None:
                        problems.setdefault(("error-raises", "no-exception"), f"{tag}: common evaluation did not raise")
                elif exc is not None:
                    problems.setdefault(("policy-matrix", exc_sig(exc)), f"{tag}: common evaluation raised {type(exc).__name__}: {exc}")
                else:
                    got = np.asarray(out.design_matrix, dtype=float)
                    if got.shape != exp.shape or not np.allclose(got, exp, rtol=1e-12, atol=1e-12):
                        problems.setdefault(("policy-matrix", "common-values"), f"{tag}: common matrix differs from [clean evaluation with the columns of the variable zeroed on the unseen rows]")
                    names = {v: [a for a, vv in VAR.items() if vv == v] + [v] for v in hit}
                    if mode == "warning" and hit:
                        for v in hit:
                            if not any(any(f"'{a}'" in str(w.message) or f" {a} " in str(w.message) for a in names[v]) and issubclass(w.category, UserWarning) for w in ours):
                                problems.setdefault(("warning-emitted", "missing"), f"{tag}: no UserWarning naming {v}")
                    if mode == "silent" and ours:
                        problems.setdefault(("silent-is-silent", "warned"), f"{tag}: silent mode emitted {ours[0].message}")
                    if not hit and ours:
                        problems.setdefault(("silent-is-silent", "spurious"), f"{tag}: warning without an unseen level in the common part: {ours[0].message}")
            # ---- group
            if dm.group is not None:
                ehit = [v for v in pl if v in eff_vars]
                fhit = [v for v in pl if v in fac_vars]
                set_mode(mode)
                out, exc, ours = run_eval(dm.group, nd)
                acc.calls += 2
                acc.traces += 1
                tag = f"{d!r} mode={mode} unseen={pl}"
                if mode == "error":
                    if ehit and exc is None:
                        problems.setdefault(("error-raises", "no-exception-group"), f"{tag}: group evaluation did not raise for an unseen effect level")
                    if not ehit and not fhit and exc is not None:
                        problems.setdefault(("policy-matrix", exc_sig(exc)), f"{tag}: group evaluation raised {type(exc).__name__}: {exc}")
                    continue
                if exc is not None:
                    problems.setdefault(("new-group-block", exc_sig(exc)), f"{tag}: group evaluation raised {type(exc).__name__}: {exc}")
                    continue
                expZ, expS, expF = expected_group(dm, nd, clean, pl)
                got = np.asarray(out.design_matrix, dtype=float)
                if got.shape != expZ.shape:
                    problems.setdefault(("new-group-block", "shape"), f"{tag}: group matrix has shape {got.shape}, expected {expZ.shape} (one trailing block per term of a factor with unseen groups)")
                elif not np.allclose(got, expZ, rtol=1e-12, atol=1e-12):
                    problems.setdefault(("new-group-block", "values"), f"{tag}: group matrix differs from [old blocks unchanged, unseen rows in one trailing block]")
                gs = {k: (s.start, s.stop) for k, s in out.slices.items()}
                if gs != expS:
                    problems.setdefault(("new-group-block", "slices"), f"{tag}: slices {gs}, expected {expS}")
                for name_ in out.terms:  # the block of each term, read through the result itself
                    a_, b_ = gs.get(name_, (0, 0))
                    try:
                        blk = np.asarray(out[name_], dtype=float)
                        if blk.shape != got[:, a_:b_].shape or not np.array_equal(blk, got[:, a_:b_]):
                            problems.setdefault(("new-group-block", "term-access"), f"{tag}: result[{name_!r}] has shape {blk.shape}, it is not the columns {a_}:{b_} of the result's matrix")
                    except Exception as e:
                        problems.setdefault(("new-group-block", "term-access-" + exc_sig(e)), f"{tag}: result[{name_!r}] raised {type(e).__name__}: {e}")
                if tuple(out.factors_with_new_levels) != expF:
                    problems.setdefault(("factors-with-new-levels", "names"), f"{tag}: factors_with_new_levels {out.factors_with_new_levels}, expected {expF}")
                if mode == "silent" and ours:
                    problems.setdefault(("silent-is-silent", "warned"), f"{tag}: silent mode emitted {ours[0].message}")
                if mode == "warning" and (ehit or fhit) and not ours:
                    problems.setdefault(("warning-emitted", "missing-group"), f"{tag}: no warning for an unseen level in the group part")
    set_mode("error")
    acc.subcases(case, n - 1, True, "placements-x-modes")
    nontriv = any(t in d for t in (":", "*", "/", "(f", "f|", "S(", "T(", "C("))
    if problems:
        acc.case(case, "MISMATCH", sample=False)
        for (clause, sig), msg in problems.items():
            acc.violation(clause, sig, case, msg)
    else:
        acc.case(case, "ok", nontrivial=nontriv)


def check_history(case, acc):
    """All event sequences of length <= 3: the mode in force at evaluation time, and only it, decides."""
    from formulae import design_matrices

    d = case["design"]
    pl = {"f": [1], "g": [0, 2]} if "|g" in d else {"f": [1], "h": [0, 2]}
    events = ["set:error", "set:warning", "set:silent", "evalc", "evalg"]
    problems = {}
    nh = 0
    # expectations come from a separate design object so that the history contains the listed events only
    set_mode("error")
    ref = design_matrices(d, train())
    nd0, clean0 = make_frames(pl)
    exp_c = expected_common(ref, nd0, clean0, pl)
    exp_g = expected_group(ref, nd0, clean0, pl)[0]
    cvars, evars, fvars = set(), set(), set()
    for name in ref.common.terms:
        cvars |= atoms_of(name)
    for name in ref.group.terms:
        e_, f_ = name.split("|")
        evars |= atoms_of(e_)
        fvars |= atoms_of(f_)
    for L in range(1, _HDEPTH + 1):
        for hist in itertools.product(events, repeat=L):
            if not any(e.startswith("eval") for e in hist):
                continue
            nh += 1
            set_mode("error")
            dm = design_matrices(d, train())
            nd, clean = make_frames(pl)  # one frame object for the whole history
            mode = "error"
            for i, ev in enumerate(hist):
                acc.calls += 1
                if ev.startswith("set:"):
                    mode = ev[4:]
                    set_mode(mode)
                    continue
                M = dm.common if ev == "evalc" else dm.group
                out, exc, ours = run_eval(M, nd)
                tag = f"{d!r} history={list(hist[: i + 1])}"
                acc.traces += 1
                if ev == "evalc":
                    hit = any(v in cvars for v in pl)
                    must_raise, may_raise = hit, hit
                else:
                    hit = any(v in evars or v in fvars for v in pl)
                    must_raise = any(v in evars for v in pl)
                    may_raise = hit  # unseen groups in error mode: not demanded either way
                if mode == "error":
                    if must_raise and exc is None:
                        problems.setdefault(("mode-at-evaluation-time", "no-exception"), f"{tag}: did not raise in error mode")
                    if not may_raise and exc is not None:
                        problems.setdefault(("mode-at-evaluation-time", "raised"), f"{tag}: raised {type(exc).__name__} although nothing is unseen in that part")
                    continue
                if exc is not None:
                    problems.setdefault(("mode-at-evaluation-time", "raised"), f"{tag}: raised {type(exc).__name__} in {mode} mode")
                    continue
                exp = exp_c if ev == "evalc" else exp_g
                if np.asarray(out.design_matrix).shape != exp.shape or not np.allclose(np.asarray(out.design_matrix, dtype=float), exp):
                    problems.setdefault(("mode-at-evaluation-time", "values"), f"{tag}: matrix differs from the {mode}-mode expectation")
                if mode == "warning" and hit and not ours:
                    problems.setdefault(("mode-at-evaluation-time", "no-warning"), f"{tag}: no warning in warning mode")
                if (mode == "silent" or not hit) and ours:
                    problems.setdefault(("mode-at-evaluation-time", "warned"), f"{tag}: unexpected warning ({mode} mode, unseen value in that part: {hit})")
    set_mode("error")
    acc.subcases(case, nh - 1, True, "histories")
    if problems:
        acc.case(case, "MISMATCH", sample=False)
        for (clause, sig), msg in problems.items():
            acc.violation(clause, sig, case, msg)
    else:
        acc.case(case, "ok", nontrivial=True)


def check_config(case, acc):
    import formulae
    from formulae.config import Config

    cfg = formulae.config
    problems = []
    for mode in MODES:
        set_mode(mode)
        for key, val in [("EVAL_UNSEEN_CATEGORIES", "ignore"), ("EVAL_UNSEEN_CATEGORIES", None), ("EVAL_UNSEEN_CATEGORIES", "Error"),
                         ("EVAL_UNSEEN_CATEGORIES", 0), ("eval_unseen_categories", "error"), ("UNKNOWN", "error"), ("FIELDS", {})]:
            for how in ("item", "attr"):
                acc.calls += 1
                try:
                    if how == "item":
                        cfg[key] = val
                    else:
                        setattr(cfg, key, val)
                    problems.append(f"config {how} assignment {key}={val!r} was accepted")
                except (ValueError, KeyError, TypeError, AttributeError):
                    pass
                if cfg["EVAL_UNSEEN_CATEGORIES"] != mode or cfg.EVAL_UNSEEN_CATEGORIES != mode:
                    problems.append(f"refused assignment {key}={val!r} changed the mode to {cfg['EVAL_UNSEEN_CATEGORIES']}")
                    set_mode(mode)
        for m2 in MODES:
            cfg.EVAL_UNSEEN_CATEGORIES = m2
            if cfg["EVAL_UNSEEN_CATEGORIES"] != m2:
                problems.append(f"attribute assignment of {m2} not visible through item access")
            cfg["EVAL_UNSEEN_CATEGORIES"] = mode
    try:
        Config({"EVAL_UNSEEN_CATEGORIES": "bogus"})
        problems.append("Config({'EVAL_UNSEEN_CATEGORIES': 'bogus'}) accepted")
    except ValueError:
        pass
    if Config()["EVAL_UNSEEN_CATEGORIES"] != "error":
        problems.append("default mode is not 'error'")
    # other Config objects are separate objects: creating or changing one never reconfigures the library
    from formulae import design_matrices

    dmc = design_matrices("y ~ f + (1|g)", train())
    nd_unseen, _ = make_frames({"f": [0], "g": [1]})
    for mode in MODES:
        for other_mode in MODES:
            set_mode(mode)
            other = Config({"EVAL_UNSEEN_CATEGORIES": other_mode})
            bare = Config()
            bare["EVAL_UNSEEN_CATEGORIES"] = other_mode
            acc.calls += 2
            if cfg["EVAL_UNSEEN_CATEGORIES"] != mode:
                problems.append(f"the library's mode was {mode}; after creating Config objects set to {other_mode} it is {cfg['EVAL_UNSEEN_CATEGORIES']}")
                continue
            if other["EVAL_UNSEEN_CATEGORIES"] != other_mode or bare.EVAL_UNSEEN_CATEGORIES != other_mode:
                problems.append(f"a separate Config object set to {other_mode} reads {other['EVAL_UNSEEN_CATEGORIES']} / {bare.EVAL_UNSEEN_CATEGORIES}")
            for M in (dmc.common, dmc.group):
                out, exc, ours = run_eval(M, nd_unseen)
                raised, warned = exc is not None, bool(ours)
                want = {"error": (True, False), "warning": (False, True), "silent": (False, False)}[mode]
                if M is dmc.group and mode == "error":
                    continue  # (unseen groups in 'error' mode are not demanded)
                if (raised, warned) != want:
                    problems.append(f"mode {mode} with other Config objects set to {other_mode}: evaluation raised={raised} warned={warned}")
    set_mode("error")
    if problems:
        acc.case(case, "MISMATCH", sample=False)
        acc.violation("config-validation", "accepted", case, "; ".join(problems[:3]))
    else:
        acc.case(case, "ok", nontrivial=True)


def check_case(case, acc):
    try:
        if case["kind"] == "placement":
            check_placement(case, acc)
        elif case["kind"] == "history":
            check_history(case, acc)
        else:
            check_config(case, acc)
    finally:
        set_mode("error")


def classify(case, clause, sig, detail):
    return "-"


def snippet(case):
    return f"# see fmc/checks/c10.py: design {case.get('design')!r}"

"""C04 - every design-matrix column holds exactly what its label says (DESIGN.md 3, C04)."""
import itertools

import numpy as np
import pandas as pd

ID = "C04"
RULE = (
    "every generated formula (main effects; interactions of arity 2-3 in every factor order over two "
    "categoricals, an integer-via-C factor and two numerics, alone and with their margins, with and without "
    "intercept; group-specific terms with effect 1/x/f/f:x/x:f and factor h/g:h/h:g; numeric, categorical and "
    "y[level] responses) on every generated frame (row counts 7/9/12, str / unordered Categorical / ordered "
    "Categorical columns with declared non-sorted order, pairwise different level counts): each label is "
    "interpreted by the reference label semantics and compared with its column.  Non-trivial: the design has a "
    "categorical interaction or a group-specific term"
    '  Added frame variants: unused declared categories, other numeric dtypes, 72-96 rows with a dozen levels, '
    'falsy level names, 8-bit integer columns whose products exceed 8 bits, values of magnitude 1e-10 / 1e-13 '
    '(comparison purely relative); labels re-checked on re-evaluated matrices, on two-row categorical batches, '
    'on new frames with unseen levels in silent mode, and again after printing every matrix and building the '
    'same formula on another frame. '
    'Later: near-duplicate level names, numeric levels with seven digits, levels= leaving out a value of the '
    "data, the caller's copies (np.array, as_dataframe) overwritten between the two verifications. "
)
ASSUMPTIONS = [
    "label semantics (name[level], ':' product, 'e|g[l]') as documented; only treatment-coded pieces are interpreted",
    "declared categories are always all observed",
]

F = ["fb", "fc", "fa"]  # first seen != sorted
G = ["g2", "g1"]
H = ["hd", "h b", "ha", "h[c]"]  # a level with a space and one with brackets
K = [10, -2, 9]  # string order differs from numeric order
YC = ["u", "w", "v"]
VARIANTS = ["str", "cat-ord", "ord-cat", "unused", "num-dtypes", "big", "falsy", "small-ints", "tiny", "near-dup", "long-numbers"]
_FR = {}


def frame(n, variant, rot):
    key = (n, variant, rot)
    if key in _FR:
        return _FR[key]
    if variant == "big":  # many rows, a dozen levels (two-digit suffixes), integer levels 1..12
        n = 72 + 12 * (n % 3)
        idx = [(i * 5 + rot) for i in range(n)]
        rng = np.random.RandomState(rot)
        lv_f = [f"l{j}" for j in range(1, 13)]
        lv_h = [f"h{j}" for j in range(1, 12)]
        df = pd.DataFrame({
            "f": [lv_f[i % 12] for i in idx], "g": [G[(i // 3) % 2] for i in idx], "h": [lv_h[(i * 7) % 11] for i in idx], "k": [(i * 5) % 12 + 1 for i in idx],
            "x": np.round(rng.normal(size=n) * 2 + 3, 3), "z": np.round(rng.normal(size=n) + 1, 3), "y": np.round(rng.normal(size=n), 3), "yc": [YC[i % 3] for i in idx],
        })
        order = {"f": sorted(lv_f), "g": sorted(G), "h": sorted(lv_h), "k": sorted(set(df["k"])), "yc": sorted(YC)}
        _FR[key] = (df, order)
        return _FR[key]
    idx = [(i + rot) for i in range(n)]
    rng = np.random.RandomState(7 * n + rot)
    d = {
        "f": [F[i % 3] for i in idx],
        "g": [G[(i // 2) % 2] for i in idx],
        "h": [H[(i * 3) % 4] for i in idx],
        "k": [K[(i // 3 + i) % 3] for i in idx],
        "x": np.round(rng.normal(size=n) * 2 + 3, 3),
        "z": np.round(rng.normal(size=n) + 1, 3),
        "y": np.round(rng.normal(size=n), 3),
        "yc": [YC[(i + i // 3) % 3] for i in idx],
    }
    df = pd.DataFrame(d)
    order = {"f": sorted(F), "g": sorted(G), "h": sorted(H), "k": sorted(K), "yc": sorted(YC)}
    if variant == "cat-ord":
        df["f"] = pd.Categorical(df["f"], categories=["fc", "fa", "fb"])  # unordered: levels get sorted
        df["g"] = pd.Categorical(df["g"], categories=["g2", "g1"], ordered=True)  # declared order respected
        df["h"] = pd.Categorical(df["h"], categories=["h[c]", "ha", "hd", "h b"], ordered=True)
        order["g"] = ["g2", "g1"]
        order["h"] = ["h[c]", "ha", "hd", "h b"]
        df["yc"] = pd.Categorical(df["yc"], categories=["w", "v", "u"], ordered=True)
        order["yc"] = ["w", "v", "u"]
    elif variant == "ord-cat":
        df["f"] = pd.Categorical(df["f"], categories=["fc", "fa", "fb"], ordered=True)
        df["g"] = pd.Categorical(df["g"], categories=["g2", "g1"])
        order["f"] = ["fc", "fa", "fb"]
        df["yc"] = pd.Categorical(df["yc"], categories=["w", "v", "u"])
    elif variant == "falsy":  # an empty-string level and the integer level 0
        df["f"] = [{"fb": "", "fc": "fc", "fa": "fa"}[v] for v in df["f"]]
        df["k"] = [{10: 0, -2: -2, 9: 9}[v] for v in df["k"]]
        df["g"] = pd.Categorical([{"g2": 0, "g1": 7}[v] for v in df["g"]])
        order["f"] = sorted(set(df["f"]))
        order["k"] = sorted(set(df["k"]))
        order["g"] = [0, 7]
    elif variant == "num-dtypes":  # numeric columns of other dtypes hold their values just the same
        df["x"] = df["x"].astype("float32").astype("float64")  # float32 products would be rounded in float32: not a labelling issue
        df["z"] = (df["z"] * 10).round().astype("int8")
        df["y"] = (df["y"] > 0)
        df["k"] = df["k"].astype("int16")
    elif variant == "near-dup":  # level names that differ only in case or in surrounding blanks are different levels
        df["f"] = [{"fb": "fa ", "fc": "Fa", "fa": "fa"}[v] for v in df["f"]]
        df["g"] = [{"g2": "g1 ", "g1": "g1"}[v] for v in df["g"]]
        df["h"] = [{"hd": " ha", "h b": "ha", "ha": "HA", "h[c]": "ha  "}[v] for v in df["h"]]
        for c_ in ("f", "g", "h"):
            order[c_] = sorted(set(df[c_]))
    elif variant == "long-numbers":  # numeric levels with seven and more significant digits, integral floats, a negative one
        df["k"] = [{10: 1234561, -2: 1234562, 9: -2}[v] for v in df["k"]]
        order["k"] = sorted(set(df["k"]))
    elif variant == "small-ints":  # 8-bit integer columns whose products do not fit in 8 bits
        df["x"] = np.array([(37 * i + 5 * rot) % 120 - 20 for i in range(n)], dtype="int8")
        df["z"] = np.array([(11 * i + rot) % 50 + 3 for i in range(n)], dtype="int8")
    elif variant == "tiny":  # measurements in small units: every value far below 1e-8, a few exact zeros
        df["x"] = df["x"] * 1e-10
        df["z"] = np.where(np.arange(n) % 4 == 1, 0.0, df["z"] * 1e-13)
    elif variant == "unused":  # declared categories that never occur
        df["f"] = pd.Categorical(df["f"], categories=["fc", "fz", "fa", "fb"], ordered=True)  # ordered: all declared levels, in that order
        df["g"] = pd.Categorical(df["g"], categories=["g2", "gz", "g1"])  # unordered: the observed levels, sorted
        order["f"] = ["fc", "fz", "fa", "fb"]
        df["yc"] = pd.Categorical(df["yc"], categories=["w", "zz", "v", "u"], ordered=True)
        order["yc"] = ["w", "zz", "v", "u"]
    _FR[key] = (df, order)
    return _FR[key]


def alt_frame():
    """Another frame with other level names and counts (for the second build)."""
    if "alt" not in _FR:
        n = 10
        _FR["alt"] = pd.DataFrame({
            "f": ["p", "q", "r", "s", "p", "q", "r", "s", "p", "q"], "g": ["u1", "u2", "u3"] * 3 + ["u1"],
            "h": ["m", "n"] * 5, "k": [1, 2, 3, 4, 5] * 2, "x": np.arange(n) * 1.5, "z": np.arange(n)[::-1] * 0.5,
            "y": np.arange(n) * 0.1, "yc": ["v", "u", "t", "v", "w"] * 2,
        })
    return _FR["alt"]


ATOMS = {"f": "f", "g": "g", "x": "x", "z": "z", "k": "C(k)", "h": "h", "t": "T(f, 'fb')"}
CATS = {"f", "g", "k", "h", "t"}
NAME2COL = {"C(k)": "k", "T(f, 'fb')": "f", "C(f, levels=sub)": "f", "C(g, levels=sub)": "g"}
EXPLICIT_REF = {"T(f, 'fb')": "fb"}


def term_text(t):
    return ":".join(ATOMS[a] for a in t)


def gen_formulas():
    out = []
    vars_ = ["f", "g", "x", "z"]
    tuples = [list(p) for n in (2, 3) for p in itertools.permutations(vars_, n)]
    tuples += [["k", "f"], ["f", "k"], ["k", "x"], ["x", "k"], ["g", "k", "x"], ["k", "f", "g"], ["t", "g"], ["g", "t"], ["t", "x"], ["x", "t", "g"]]
    mains = [["f"], ["g"], ["x"], ["k"], ["t"]]
    for resp in ("y",):
        for icpt in (True, False):
            for t in mains:
                out.append({"resp": resp, "icpt": icpt, "common": [t], "group": []})
            out.append({"resp": resp, "icpt": icpt, "common": [["f"], ["g"], ["x"], ["k"]], "group": []})
            for t in tuples:
                out.append({"resp": resp, "icpt": icpt, "common": [t], "group": []})
                margins = [[a] for a in t]
                out.append({"resp": resp, "icpt": icpt, "common": margins + [t], "group": []})
                if len(t) == 3:
                    out.append({"resp": resp, "icpt": icpt, "common": [[t[0]], t[:2], t], "group": []})
    # the same families spelled with the operators that build terms out of shared operands
    for rhs in ["f/g", "g/f", "f/x", "x/f", "(f + g)*x", "(f + g):x + f", "(f + g + x)**2", "f*g*x", "f*g", "C(k)*f", "(f + g)/x",
                "f:(g + x) + f", "(f + x):(g + z)", "f*g - f", "(f + g + C(k))**2", "x*f*z"]:
        for icpt in (True, False):
            out.append({"resp": "y", "icpt": icpt, "common": [["f", "g"]], "group": [], "rhs": rhs})
    effects = [["1"], ["x"], ["f"], ["f", "x"], ["x", "f"], ["1", "x"], ["1", "f"]]
    factors = [["h"], ["g", "h"], ["h", "g"], ["k"], ["g", "f"]]  # the last one shares a variable with the effects f, f:x
    for e in effects:
        for fac in factors:
            for zero in (False, True):
                if e[0] == "1" and len(e) > 1:
                    eff = [["1"], [e[1]]]
                    if zero:
                        continue
                else:
                    eff = [e]
                if e == ["1"] and zero:
                    continue
                out.append({"resp": "y", "icpt": True, "common": [["x"]], "group": [{"eff": eff, "fac": fac, "zero": zero}]})
    out.append({"resp": "y", "icpt": True, "common": [], "group": [{"eff": [["1"]], "fac": ["h"], "zero": False}, {"eff": [["x"]], "fac": ["g"], "zero": True}]})
    out.append({"resp": "y", "icpt": True, "common": [["x"]], "group": [{"eff": [["1"]], "fac": ["g", "h"], "zero": False}, {"eff": [["x"]], "fac": ["h", "g"], "zero": True}]})
    out.append({"resp": "y", "icpt": True, "common": [["x"]], "group": [{"eff": [["f"]], "fac": ["h", "g"], "zero": True}, {"eff": [["x"]], "fac": ["g", "h"], "zero": False}]})
    for resp in ("yc", "yc[v]", "yc['u']", "y"):
        out.append({"resp": resp, "icpt": True, "common": [["x"], ["f"]], "group": []})
        out.append({"resp": resp, "icpt": False, "common": [["g", "x"]], "group": [{"eff": [["1"]], "fac": ["h"], "zero": False}]})
    return out


def formula_of(c):
    items = []
    if not c["icpt"]:
        items.append("0")
    if c.get("rhs"):
        return f"{c['resp']} ~ " + " + ".join(items + [c["rhs"]])
    items += [term_text(t) for t in c["common"]]
    for g in c["group"]:
        effs = []
        if g["zero"]:
            effs.append("0")
        for e in g["eff"]:
            effs.append("1" if e == ["1"] else term_text(e))
        items.append("(" + " + ".join(effs) + " | " + term_text(g["fac"]) + ")")
    if not items:
        items = ["1"]
    return f"{c['resp']} ~ " + " + ".join(items)


def units(tier, seed):
    fs = gen_formulas()
    ns = [7, 12] if tier == "quick" else [7, 9, 12, 16]
    rots = [seed % 5, (seed % 5) + 1] if tier == "quick" else [seed % 5 + r for r in range(4)]
    u = []
    for n in ns:
        for v in VARIANTS:
            for r in rots:
                u.append([{"n": n, "variant": v, "rot": r, "f": f} for f in fs])
    u.append([{"subset_levels": True, "n": n, "variant": v, "rot": 0} for n in ns for v in ("str", "cat-ord", "falsy")])
    return u


def expand(unit):
    return unit


def col_of(df, atom):
    return df[NAME2COL.get(atom, atom)]


def piece_value(piece, df, order, names):
    """Value of one label piece ('x' or 'f[fb]') -> (column, variable, level-or-None)."""
    for nm in names:
        if piece == nm and nm in ("x", "z", "y"):
            return df[nm].to_numpy(dtype=float), nm, None
        if piece.startswith(nm + "[") and piece.endswith("]"):
            lvl = piece[len(nm) + 1 : -1]
            col = col_of(df, nm)
            return np.array([1.0 if str(v) == lvl else 0.0 for v in col]), nm, lvl
    raise KeyError(piece)


def check_labels(labels, M, df, order, comp_names, what, problems, group=False, subset=False):
    M = np.asarray(M, dtype=float)
    if M.ndim == 1:
        M = M[:, None]
    if labels is None or len(labels) != M.shape[1]:
        problems.append(("count", f"{what}: {None if labels is None else len(labels)} labels for {M.shape[1]} columns"))
        return
    seq = {}
    for j, lab in enumerate(labels):
        try:
            if group:
                eff, _, grp = lab.partition("|")
                val = np.ones(len(df))
                pieces = [("e", q) for q in ([] if eff == "1" else eff.split(":"))] + [("g", q) for q in grp.split(":")]
            else:
                pieces = [("c", q) for q in ([] if lab == "Intercept" else lab.split(":"))]
                val = np.ones(len(df))
            for role, p in pieces:
                v, var, lvl = piece_value(p, df, order, comp_names)
                val = val * v
                if lvl is not None:
                    s = seq.setdefault((role, var), [])
                    if lvl not in s:
                        s.append(lvl)
        except KeyError as e:
            problems.append(("label-form", f"{what}: cannot interpret label {lab!r} (piece {e})"))
            continue
        if not np.allclose(M[:, j], val, rtol=1e-12, atol=0):
            problems.append(("column-meaning", f"{what}: column {j} labelled {lab!r} does not hold that value"))
    if len(set(labels)) != len(labels):
        problems.append(("labels-unique", f"{what}: duplicate labels {labels}"))
    for (role, var), lv in seq.items():
        key = NAME2COL.get(var, var)
        exp = [str(l) for l in order[key]]
        if var in EXPLICIT_REF and len(lv) == len(exp) - 1:
            if lv != [l for l in exp if l != EXPLICIT_REF[var]]:
                problems.append(("reference-level", f"{what}: reduced coding of {var} shows {lv}; the requested reference {EXPLICIT_REF[var]} should be the omitted one"))
            continue
        sub = [l for l in exp if l in lv]
        if lv != sub:
            problems.append(("level-order", f"{what}: levels of {var} appear as {lv}, expected order {exp}"))
        elif len(lv) == len(exp) - 1 and lv != exp[1:]:
            problems.append(("reference-level", f"{what}: reduced coding of {var} omits {sorted(set(exp) - set(lv))}, not the first level {exp[0]}"))
        elif len(lv) < len(exp) - 1 and not subset:
            problems.append(("level-count", f"{what}: only levels {lv} of {exp} appear for {var}"))


NAMES = ["x", "z", "T(f, 'fb')", "f", "g", "h", "C(k)", "yc", "y"]


def verify(dm, c, df, order):
    problems = []
    names = NAMES
    if c["common"] or c["icpt"]:
        if dm.common is None:
            problems.append(("count", "no common matrix"))
        else:
            cdf = dm.common.as_dataframe()
            start = 0
            for tname, t in dm.common.terms.items():
                w = len(t.labels) if t.labels is not None else 0
                check_labels(list(cdf.columns)[start : start + w], cdf.to_numpy()[:, start : start + w], df, order, names, f"common term {tname}", problems)
                if not np.array_equal(np.asarray(dm.common[tname], dtype=float), cdf.to_numpy(dtype=float)[:, start : start + w]):
                    problems.append(("column-meaning", f"common[{tname!r}] is not the block of columns carrying its labels"))
                start += w
            if start != cdf.shape[1]:
                problems.append(("count", f"{start} term labels for {cdf.shape[1]} columns"))
            if not np.array_equal(cdf.to_numpy(), np.asarray(dm.common.design_matrix)):
                problems.append(("column-meaning", "as_dataframe() differs from design_matrix"))
            # per-term labels agree with the data-frame header, in term order
            flat = [l for t in dm.common.terms.values() for l in t.labels]
            if flat != list(cdf.columns):
                problems.append(("count", f"term labels {flat} != data-frame header {list(cdf.columns)}"))
    if c["group"]:
        if dm.group is None:
            problems.append(("count", "no group matrix"))
        else:
            for name, t in dm.group.terms.items():
                check_labels(t.labels, dm.group[name], df, order, names, f"group term {name}", problems, group=True)
    # the matrices returned by evaluate_new_data for the same frame carry the same labels
    try:
        if dm.common is not None and c["resp"] != "__none__":
            c2 = dm.common.evaluate_new_data(df)
            for tname, t in dm.common.terms.items():
                check_labels(list(t.labels), c2[tname], df, order, names, f"re-evaluated common term {tname}", problems)
        if dm.group is not None:
            g2 = dm.group.evaluate_new_data(df)
            for tname, t in dm.group.terms.items():
                check_labels(t.labels, g2[tname], df, order, names, f"re-evaluated group term {tname}", problems, group=True)
        # a sequence of further batches; categorical columns only declare what occurs in each batch
        n_ = len(df)
        has_cat = any(isinstance(df[c_].dtype, pd.CategoricalDtype) for c_ in df.columns)
        for lo, hi in ((0, 2), (2, 4), (4, 6), (1, 3), (0, n_)) if has_cat and n_ <= 20 else ():
            nd = df.iloc[lo:hi].reset_index(drop=True)
            for col in nd.columns:
                if isinstance(nd[col].dtype, pd.CategoricalDtype):
                    nd[col] = nd[col].cat.remove_unused_categories()
            if dm.common is not None:
                cb = dm.common.evaluate_new_data(nd)
                for tname, t in dm.common.terms.items():
                    check_labels(list(t.labels), cb[tname], nd, order, names, f"common term {tname} on batch rows {lo}:{hi}", problems)
            if dm.group is not None:
                gb = dm.group.evaluate_new_data(nd)
                for tname, t in dm.group.terms.items():
                    check_labels(t.labels, gb[tname], nd, order, names, f"group term {tname} on batch rows {lo}:{hi}", problems, group=True)
    except Exception as e:
        problems.append(("column-meaning", f"evaluate_new_data on rows of the training frame raised {type(e).__name__}: {e}"))
    rdf = dm.response.as_dataframe()
    R = rdf.to_numpy()
    if c["resp"] == "y":
        if list(rdf.columns) != ["y"] or not np.array_equal(R[:, 0], df["y"].to_numpy()):
            problems.append(("column-meaning", f"numeric response: header {list(rdf.columns)}"))
    else:
        check_labels(list(rdf.columns), R, df, order, ["yc"], "response", problems, subset=c["resp"] != "yc")
        if c["resp"] == "yc":
            exp = [f"yc[{l}]" for l in order["yc"]]
            if list(rdf.columns) != exp:
                problems.append(("level-order", f"categorical response columns {list(rdf.columns)}, expected {exp}"))
        else:
            lvl = c["resp"][3:-1].strip("'")
            if list(rdf.columns) != [f"yc[{lvl}]"]:
                problems.append(("label-form", f"response {c['resp']}: header {list(rdf.columns)}"))
    return problems


def exercise(dm, df, order=None, names=None, problems=None):
    """Read-only use of a design: str() of every matrix, as_dataframe() twice, new data with unseen levels in silent
    mode (printed as well).  Returns a short description of what could be done."""
    import formulae

    done = []
    old = formulae.config["EVAL_UNSEEN_CATEGORIES"]
    try:
        for m in (dm.response, dm.common, dm.group):
            if m is not None:
                str(m), repr(m)
        if dm.common is not None:
            dm.common.as_dataframe(), dm.common.as_dataframe()
            view = dm.common.as_dataframe()  # ... which is the caller's own: overwriting it is not the library's business
            view.iloc[:, :] = view.to_numpy() * 0 - 7
            for m in (dm.common, dm.group):
                if m is not None:
                    copy_ = np.array(m)
                    if copy_.flags.writeable:
                        copy_[...] = -3
        rview = dm.response.as_dataframe()
        dm.response.as_dataframe()
        try:
            rview.iloc[:, :] = rview.to_numpy() * 0 - 7
        except Exception:
            pass
        done.append("printed")
        nd = df.iloc[:4].reset_index(drop=True).copy()
        for col in ("f", "g", "h"):
            nd[col] = nd[col].astype(object)
            nd.loc[0, col] = "zz new"
        nd["k"] = nd["k"].astype("int64")
        nd.loc[1, "k"] = 77
        formulae.config["EVAL_UNSEEN_CATEGORIES"] = "silent"
        for m in (dm.common, dm.group):
            if m is None:
                continue
            try:
                r = m.evaluate_new_data(nd)
                str(r), repr(r)
                if m is dm.common:
                    r.as_dataframe(), r.as_dataframe()
                    if problems is not None:  # the labels mean the same on a frame with unseen levels: those rows are 0 in every level column
                        for tname, t in dm.common.terms.items():
                            check_labels(list(t.labels), r[tname], nd, order, names, f"common term {tname} on new data with unseen levels (silent mode)", problems)
                done.append("unseen-" + type(m).__name__[:6])
            except Exception as e:
                done.append("unseen-raises-" + type(e).__name__)
    except Exception as e:
        done.append("raises-" + type(e).__name__)
    finally:
        formulae.config["EVAL_UNSEEN_CATEGORIES"] = old
    return "+".join(done)


def check_subset_levels(case, acc):
    """levels= that leaves out a value of the data: refused, or every column is still what its label says."""
    from formulae import design_matrices

    df, order = frame(case["n"], case["variant"], case["rot"])
    problems = []
    for col, sub in (("f", sorted(set(df["f"]))[:2]), ("f", sorted(set(df["f"]))[1:]), ("g", sorted(set(df["g"]))[:1])):
        name = f"C({col}, levels=sub)"
        for formula in (f"y ~ 0 + {name}", f"y ~ {name}", f"y ~ 0 + {name}:x", f"y ~ x + (1|{name})"):
            acc.calls += 1
            try:
                dm = design_matrices(formula, df, extra_namespace={"sub": list(sub)})
            except Exception:
                acc.bulk(1, "subset-levels-refused")
                continue
            for tname, t in (dm.common.terms.items() if dm.common is not None else ()):
                if name in tname:
                    check_labels(list(t.labels), dm.common[tname], df, dict(order, **{col: list(sub)}), ["x", name], f"{formula!r} with sub={list(sub)} was accepted; term {tname}", problems, subset=True)
            if dm.group is not None:
                for tname, t in dm.group.terms.items():
                    check_labels(t.labels, dm.group[tname], df, dict(order, **{col: list(sub)}), ["x", name], f"{formula!r} with sub={list(sub)} was accepted; group term {tname}", problems, group=True, subset=True)
    if problems:
        acc.case(case, "MISMATCH", sample=False)
        acc.violation(problems[0][0], "mismatch", case, problems[0][1])
    else:
        acc.case(case, "ok", nontrivial=True)


def check_case(case, acc):
    from formulae import design_matrices
    from fmc.core import exc_sig

    if case.get("subset_levels"):
        return check_subset_levels(case, acc)
    c = case["f"]
    df, order = frame(case["n"], case["variant"], case["rot"])
    f = formula_of(c)
    if case["variant"] in ("unused", "big", "falsy", "near-dup") and "T(f" in f:
        acc.case([f, case["n"], case["variant"], case["rot"]], "not-encodable")  # C()/T() of an ordered column declaring an unobserved level is refused
        return
    acc.calls += 1
    acc.traces += 1
    try:
        dm = design_matrices(f, df)
    except Exception as e:
        acc.case([f, case["n"], case["variant"]], "raises", sample=False)
        acc.violation("design-exists", exc_sig(e), case, f"{f!r} raised {type(e).__name__}: {e}")
        return
    problems = verify(dm, c, df, order)
    # reading operations (printing, data-frame views, new data with unseen levels printed) and a later design built from
    # the same formula text on another frame must not disturb this one
    acc.calls += 1
    done = exercise(dm, df, order, NAMES, problems)
    acc.table("reading_operations_between_the_two_verifications", done)
    try:
        design_matrices(f, alt_frame())
    except Exception:
        pass
    after = verify(dm, c, df, order)
    if len(after) > len(problems):
        extra = [m for m in after if m not in problems][:1]
        problems.append(("design-unaffected-by-later-build", f"after printing the matrices, evaluating and printing new data with unseen levels and building the same formula on another frame: {extra[0][1] if extra else after[0][1]}"))
    nontriv = bool(c["group"]) or any(len(t) > 1 and set(t) & CATS for t in c["common"])
    if problems:
        acc.case([f, case["n"], case["variant"]], "MISMATCH", sample=False)
        seen = set()
        for clause, msg in problems:
            if clause not in seen:
                seen.add(clause)
                acc.violation(clause, "mismatch", case, f"{f!r} (n={case['n']}, {case['variant']}): {msg}")
    else:
        acc.case([f, case["n"], case["variant"], case["rot"]], "ok", nontrivial=nontriv)


def classify(case, clause, sig, detail):
    return "-"


def snippet(case):
    if case.get("subset_levels"):
        return f"# fmc.checks.c04.check_subset_levels({case!r})"
    return f"# frame: fmc.checks.c04.frame({case['n']}, {case['variant']!r}, {case['rot']})\nfrom formulae import design_matrices\ndm = design_matrices({formula_of(case['f'])!r}, df)\nprint(dm.common.as_dataframe())"

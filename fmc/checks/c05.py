"""C05 - group-specific blocks: group indicators x effect columns, lme4 intercept rules (DESIGN.md 3, C05)."""
import itertools

import numpy as np

from fmc import frames
from fmc.refmodel import linalg

ID = "C05"
RULE = (
    "every effect expression of the pool (1, x, f, scale(x), x + z, f + x, f:x, x:f, f:f2, f + f2, f*x, f*f2; each "
    "with and without '0 +') crossed with every grouping expression (g, g:h, h:g, g + h, g/h, C(k)), plus pairs of "
    "group terms sharing a factor, on fully crossed frames (level-count vectors over {2,3}, 2 replicates): block "
    "clause (each row non-zero only in its own slot, same effect columns in every slot, slots in lexicographic "
    "cell order) and coding clause (columns of one grouping factor independent and spanning all group-by-cell "
    "means of the effect expression).  Non-trivial: the effect expression contains a categorical variable or the "
    "grouping expression has more than one factor"
    '  Added: Sum-coded effects, a plain integer grouping column, holed frames, a 6 x 7 cell frame, unordered '
    'Categoricals with unsorted categories; the block clause on three successive new frames, on new frames '
    'with an unseen level of g / of h (silent mode, every term read through matrix[name]) and on a second '
    'design built from the same text on other data. '
    'Later: ordered Categoricals with a declared order, unseen groups of g / h / k in silent mode, day-stamp '
    'float group ids, level lists reversed by the caller. '
)
ASSUMPTIONS = [
    "rank decisions by SVD with a gap check",
    "which of several equivalent reduced codings is used is not demanded",
]

EFFECTS = {
    "1": [],
    "x": [["x"]],
    "z": [["z"]],
    "f": [["f"]],
    "scale(x)": [["scale(x)"]],
    "x + z": [["x"], ["z"]],
    "f + x": [["f"], ["x"]],
    "f:x": [["f", "x"]],
    "x:f": [["x", "f"]],
    "f:f2": [["f", "f2"]],
    "f + f2": [["f"], ["f2"]],
    "f*x": [["f"], ["x"], ["f", "x"]],
    "f*f2": [["f"], ["f2"], ["f", "f2"]],
    "f + f:x": [["f"], ["f", "x"]],
    "x + f:x": [["x"], ["f", "x"]],
    "f + x + 1": [["f"], ["x"]],
    "C(f, Sum)": [["C(f, Sum)"]],
    "S(f2) + x": [["S(f2)"], ["x"]],
}
GROUPINGS = {
    "g": [["g"]],
    "h": [["h"]],
    "g:h": [["g", "h"]],
    "h:g": [["h", "g"]],
    "g + h": [["g"], ["h"]],
    "g/h": [["g"], ["g", "h"]],
    "C(k)": [["C(k)"]],
    "k": [["k"]],  # a plain integer column used as grouping factor
}
CATS = {"f", "f2", "C(f, Sum)", "S(f2)"}
_FR = {}
_SEED = 0


def prepare(tier, seed):
    global _SEED
    _SEED = seed


def frame(lv, holes=False, cat=False):
    key = (tuple(lv), holes, cat)
    if cat and cat != "bigk" and key not in _FR:  # the same data stored as unordered Categoricals whose categories are not in sorted order
        import pandas as pd

        df = frame(lv, holes).copy()
        for c in ("f", "f2", "g", "h"):
            lvls = sorted(set(df[c]))
            df[c] = pd.Categorical(df[c], categories=lvls[1:][::-1] + lvls[:1], ordered=(cat == "ord"))  # "ord": a declared order other than the sorted one
        _FR[key] = df
    if cat == "bigk" and key not in _FR:  # group ids that are long numbers (day stamps stored as floats)
        df = frame(lv, holes).copy()
        ks = sorted(set(df["k"]))
        df["k"] = df["k"].map({v: 20240101.0 + i for i, v in enumerate(ks)})
        _FR[key] = df
    if key not in _FR:
        d = dict(zip(["f", "f2", "g", "h", "k"], lv))
        df = frames.factorial(d, reps=2, seed=_SEED)
        if holes:  # not fully crossed any more (some g:h and g:k cells are empty): block clause only
            keep = [i for i in range(len(df)) if (i * 7 + _SEED) % 3 != 0]
            df = df.iloc[keep]
            gl, hl = sorted(set(df["g"])), sorted(set(df["h"]))
            df = df[~((df["g"] == gl[0]) & (df["h"] == hl[-1])) & ~((df["g"] == gl[-1]) & (df["h"] == hl[0]))]
            df = df.reset_index(drop=True)
        _FR[key] = df
    return _FR[key]


def units(tier, seed):
    vecs = [(3, 2, 2, 3, 2), (2, 3, 3, 2, 3), (2, 2, 2, 2, 2), (3, 3, 2, 2, 2)]
    if tier == "thorough":
        vecs = [v for v in itertools.product([2, 3], repeat=5)]
    u = []
    for lv, holes in [(v, h) for v in vecs for h in (False, True)]:
        block = []
        for e in EFFECTS:
            for zero in (False, True):
                if (e == "1" and zero) or e == "f + x + 1":
                    continue
                for g in GROUPINGS:
                    if g == "h":
                        continue
                    block.append({"lv": list(lv), "holes": holes, "terms": [[e, zero, g]]})
        u.append(block)
        pairs = [
            [["1", False, "g"], ["x", True, "g"]],
            [["f", True, "g + h"], ["1", False, "g"]],
            [["x", False, "g"], ["z", True, "g"]],
            [["f", True, "g"], ["x", True, "g"]],
            [["1", False, "g"], ["f", True, "g"]],
            [["x", False, "g"], ["f", False, "h"]],
            [["f", True, "g:h"], ["1", False, "g"]],
            [["x", True, "g"], ["1", False, "g"]],
            [["1", False, "g:h"], ["x", True, "h:g"]],
            [["x", False, "g:h"], ["f", True, "h:g"]],
            [["f", True, "h:g"], ["1", False, "g:h"]],
            [["f", True, "g"], ["1", False, "g"]],
            [["f", True, "g"], ["x", False, "g"]],
            [["f + x + 1", False, "g"]],
            [["x", False, "g:h"], ["z", False, "h:g"]],
            [["f", False, "g:h"], ["x", False, "h:g"]],
        ]
        u.append([{"lv": list(lv), "holes": holes, "terms": p} for p in pairs])
        if lv == vecs[0]:
            u.append([dict(c, cat="bigk") for c in block if "k" in c["terms"][0][2]])
            for kind in (True, "ord"):
                u.append([dict(c, cat=kind) for c in block])
                u.append([{"lv": list(lv), "holes": holes, "terms": p, "cat": kind} for p in pairs])
    # many cells: 6 x 7 = 42 columns in the indicator of g:h
    big = [3, 2, 6, 7, 2]
    u.append([{"lv": big, "holes": False, "terms": [[e, z, g]]} for e in ("1", "x", "f", "scale(x)") for z in (False, True) if not (e == "1" and z) for g in ("g:h", "h:g", "g/h")])
    return u


def expand(unit):
    return unit


def formula_of(case):
    items = []
    for e, zero, g in case["terms"]:
        items.append("(" + ("0 + " if zero else "") + e + " | " + g + ")")
    return "y ~ x + " + " + ".join(items)


SUMC = {"C(f, Sum)": "f", "S(f2)": "f2"}


def levels_of(col):
    """Levels as the library orders them: the declared order of an ordered Categorical, else the sorted observed values."""
    import pandas as pd

    if isinstance(col.dtype, pd.CategoricalDtype) and col.dtype.ordered:
        return [c for c in col.cat.categories if (col == c).any()]
    return sorted(set(col))


def atom_value(atom, df, train=None):
    """Value of an effect atom on df; parameters learnt from data (scale) and level sets come from `train`."""
    train = df if train is None else train
    if atom in SUMC:
        return frames.indicators(df[SUMC[atom]], levels_of(train[SUMC[atom]]))[0]
    if atom == "scale(x)":
        x = df["x"].to_numpy(dtype=float)
        xt = train["x"].to_numpy(dtype=float)
        return ((x - xt.mean()) / xt.std())[:, None]
    if atom in ("x", "z"):
        return df[atom].to_numpy(dtype=float)[:, None]
    col = df["k"] if atom == "C(k)" else df[atom]
    tcol = train["k"] if atom == "C(k)" else train[atom]
    return frames.indicators(col, levels_of(tcol))[0]


def cells(fac_atoms, df, train=None):
    """Complete indicator matrix of the cells of a grouping term + cell names (lexicographic)."""
    train = df if train is None else train
    levs = []
    for a in fac_atoms:
        col = train["k"] if a == "C(k)" else train[a]
        levs.append(levels_of(col))
    names, cols = [], []
    for combo in itertools.product(*levs):
        m = np.ones(len(df))
        for a, l in zip(fac_atoms, combo):
            col = df["k"] if a == "C(k)" else df[a]
            m = m * (col == l).to_numpy(dtype=float)
        cols.append(m)
        names.append(":".join(str(l) for l in combo))
    return np.column_stack(cols), names


def label_value(lab, df, train=None):
    train = df if train is None else train
    if lab == "1":
        return np.ones(len(df))
    val = np.ones(len(df))
    for piece in lab.split(":"):
        if piece in ("x", "z", "scale(x)"):
            val = val * atom_value(piece, df, train)[:, 0]
        else:
            name, _, lvl = piece.partition("[")
            lvl = lvl[:-1]
            if name in SUMC:  # sum coding: indicator of the level minus indicator of the omitted (last) level; 'mean' is the constant
                col = df[SUMC[name]]
                last = levels_of(train[SUMC[name]])[-1]
                if lvl == "mean":
                    continue
                val = val * (np.array([1.0 if str(v) == lvl else 0.0 for v in col]) - np.array([1.0 if v == last else 0.0 for v in col]))
            else:
                val = val * np.array([1.0 if str(v) == lvl else 0.0 for v in df[name]])
    return val


def expected_terms(case):
    """Group terms the formula denotes: name -> (effect atoms or None for the intercept, factor atoms)."""
    out = {}
    seen = set()
    for e, zero, g in case["terms"]:
        effs = ([] if zero else [None]) + EFFECTS[e]
        if e == "1":
            effs = [None]
        for fac in GROUPINGS[g]:
            for ef in effs:
                ident = (None if ef is None else frozenset(ef), frozenset(fac))  # g:h and h:g are one factor
                if ident in seen:
                    continue
                seen.add(ident)
                name = ("1" if ef is None else ":".join(ef)) + "|" + ":".join(fac)
                out[name] = (ef, fac)
    return out


def block_of(name, Z, t, ef, fac, cur, train, what, unseen=None):
    """Block clause for one term on frame `cur` (levels and learnt parameters from `train`); list of problems.
    `unseen`: rows of `cur` that belong to a group the design has not seen (they form one more slot at the end)."""
    out = []
    Z = np.asarray(Z, dtype=float)
    J, cnames = cells(fac, cur, train)
    if unseen is not None and unseen.any():
        J = np.column_stack([J, unseen.astype(float)])
    nc = J.shape[1]
    if Z.ndim != 2 or Z.shape[0] != len(cur) or Z.shape[1] % nc != 0:
        return [("block", "width", f"{name} {what}: shape {Z.shape} for {len(cur)} rows and {nc} groups")]
    p = Z.shape[1] // nc
    E = sum(Z[:, l * p : (l + 1) * p] for l in range(nc))
    bad = [l for l in range(nc) if not np.array_equal(Z[:, l * p : (l + 1) * p], J[:, l : l + 1] * E)]
    if bad:
        out.append(("block", "slots", f"{name} {what}: slot(s) {bad} are not [group indicator] x [effect columns]"))
    labs = t.labels
    if labs is not None and len(labs) == Z.shape[1]:
        for j in range(p):
            lab = labs[j].split("|")[0]
            try:
                v = label_value(lab, cur, train)
            except Exception:
                continue
            if not np.allclose(E[:, j], v, rtol=1e-10, atol=1e-12):
                out.append(("block", "effect-values", f"{name} {what}: effect column {j} ({lab!r}) does not hold that value"))
    return out


def later_blocks(case, dm, exp, df, acc):
    """Not from the initial state: (a) the group matrix evaluates three frames of equal size and other group membership one
    after the other; (b) the same formula text builds a second design on other data.  Block clause on each result."""
    from formulae import design_matrices

    out = []
    n = len(df)
    h = n // 2
    grp = dm.group
    for t in grp.terms.values():  # the lists of levels handed out belong to the caller: reordering them changes nothing below
        lv_out = getattr(t.factor, "levels", None)
        if isinstance(lv_out, list) and len(lv_out) > 1:
            lv_out.reverse()
    for step, idx in enumerate((list(range(h)), list(range(n - h, n)), list(range(h))[::-1])):
        cur = df.iloc[idx].reset_index(drop=True)
        acc.calls += 1
        try:
            r = grp.evaluate_new_data(cur)
        except Exception as e:
            return [("block", "new-data-raises", f"group.evaluate_new_data on {h} training rows raised {type(e).__name__}: {e}")]
        for name in grp.terms:
            if name in exp:
                ef, fac = exp[name]
                out += block_of(name, r[name], grp.terms[name], ef, fac, cur, df, f"on new frame {step + 1} of 3 (rows {idx[0]}..{idx[-1]})")
        if out:
            return out
    # new frames in which one grouping column holds a level the design has not seen (mode 'silent'): that factor's terms get
    # one more slot, the blocks of every other term are where .slices / matrix[name] say they are
    import formulae

    old = formulae.config["EVAL_UNSEEN_CATEGORIES"]
    try:
        formulae.config["EVAL_UNSEEN_CATEGORIES"] = "silent"
        for col in ("g", "h", "k"):
            cur = df.iloc[list(range(h))].reset_index(drop=True).copy()
            if col == "k":
                cur.loc[[0, h - 1], col] = 777
            else:
                cur[col] = cur[col].astype(object)
                cur.loc[[0, h - 1], col] = "zz new"
            acc.calls += 1
            try:
                r = grp.evaluate_new_data(cur)
            except Exception as e:
                out.append(("block", "new-group-raises", f"group.evaluate_new_data with an unseen level of {col} (silent mode) raised {type(e).__name__}: {e}"))
                break
            for name in grp.terms:
                if name in exp:
                    ef, fac = exp[name]
                    unseen = cur[col].isin(["zz new", 777]).to_numpy() if (col in fac or (col == "k" and "C(k)" in fac)) else None
                    out += block_of(name, r[name], grp.terms[name], ef, fac, cur, df, f"on a new frame with an unseen level of {col}", unseen)
            if out:
                return out
    finally:
        formulae.config["EVAL_UNSEEN_CATEGORIES"] = old
    other = df.iloc[::-1].reset_index(drop=True).copy()
    other["x"] = other["x"] * 2 + 30
    other["z"] = other["z"] - 4
    acc.calls += 1
    try:
        dm2 = design_matrices(formula_of(case), other)
    except Exception as e:
        return [("block", "second-build-raises", f"the same formula on other data raised {type(e).__name__}: {e}")]
    for name in dm2.group.terms:
        if name in exp:
            ef, fac = exp[name]
            out += block_of(name, dm2.group[name], dm2.group.terms[name], ef, fac, other, other, "in a second design built from the same text on other data")
    return out


def check_case(case, acc):
    from formulae import design_matrices
    from fmc.core import exc_sig

    df = frame(case["lv"], case.get("holes", False), case.get("cat", False))
    f = formula_of(case)
    acc.calls += 1
    acc.traces += 1
    try:
        dm = design_matrices(f, df)
        grp = dm.group
        names = list(grp.terms)
    except Exception as e:
        acc.case(f, "raises", sample=False)
        acc.violation("design-exists", exc_sig(e), case, f"{f!r} raised {type(e).__name__}: {e}")
        return
    exp = expected_terms(case)
    problems = []
    if set(names) != set(exp):
        problems.append(("terms", "terms", f"group terms {names}, expected {sorted(exp)}"))
    byfac = {}
    for name in names:
        if name not in exp:
            continue
        ef, fac = exp[name]
        t = grp.terms[name]
        Z = np.asarray(grp[name], dtype=float)
        J, cnames = cells(fac, df)
        nc = J.shape[1]
        if list(t.groups) != cnames:
            problems.append(("block", "groups", f"{name}: groups {t.groups}, expected {cnames}"))
        if Z.shape[1] % nc != 0:
            problems.append(("block", "width", f"{name}: {Z.shape[1]} columns for {nc} groups"))
            continue
        p = Z.shape[1] // nc
        E = sum(Z[:, l * p : (l + 1) * p] for l in range(nc))
        bad = [l for l in range(nc) if not np.array_equal(Z[:, l * p : (l + 1) * p], J[:, l : l + 1] * E)]
        if bad:
            problems.append(("block", "slots", f"{name}: slot(s) {bad} are not [group indicator] x [effect columns]"))
        labs = t.labels
        if labs is None or len(labs) != Z.shape[1]:
            problems.append(("block", "labels", f"{name}: {None if labs is None else len(labs)} labels for {Z.shape[1]} columns"))
        else:
            for j in range(p):
                lab = labs[j].split("|")[0]
                try:
                    v = label_value(lab, df)
                except Exception:
                    problems.append(("block", "effect-label", f"{name}: cannot interpret effect label {lab!r}"))
                    continue
                if not np.allclose(E[:, j], v, rtol=1e-10, atol=1e-12):
                    problems.append(("block", "effect-values", f"{name}: effect column {j} ({lab!r}) does not hold that value"))
            # effect labels must belong to this effect term
            want = {"1"} if ef is None else None
        byfac.setdefault(":".join(sorted(fac)), []).append((name, ef, Z, J, fac))
    # coding clause per grouping factor
    for fac, lst in byfac.items():
        if case.get("holes"):
            break
        J = lst[0][3]
        Zg = np.column_stack([z for _, _, z, _, _ in lst])
        blocks = []
        for _, ef, _, _, _ in lst:
            if ef is None:
                blocks.append(np.ones((len(df), 1)))
            else:
                blocks.append(frames.rowprod([atom_value(a, df) for a in ef]))
        R = frames.rowprod([J, np.column_stack(blocks)])
        try:
            ok, rep = linalg.same_span(Zg, R)
        except linalg.Undecided:
            acc.undecided += 1
            continue
        if rep["rank_x"] != rep["ncol"]:
            problems.append(("coding", "dependent", f"factor {fac}: {rep['ncol']} columns of rank {rep['rank_x']} (space of group-by-cell means has dimension {rep['rank_r']})"))
        elif not ok:
            problems.append(("coding", "incomplete", f"factor {fac}: columns span {rep['rank_x']} of the {rep['rank_r']} dimensions of the group-by-cell means"))
    # a later, different design with the same term names at other offsets must not disturb this one
    if len(case["terms"]) == 1 and case["terms"][0][0] != "1" and not problems:
        e_, z_, g_ = case["terms"][0]
        other = {"lv": case["lv"], "holes": case.get("holes", False), "cat": case.get("cat", False), "terms": [[e_, not z_, g_]]}
        try:
            acc.calls += 1
            design_matrices(formula_of(other), df)
        except Exception:
            pass
        for name in names:
            if name in exp:
                Z2 = np.asarray(grp[name], dtype=float)
                if Z2.shape != np.asarray(grp.terms[name].data).shape or not np.array_equal(Z2, np.asarray(grp.terms[name].data, dtype=float)):
                    problems.append(("block", "later-build", f"{name}: group[{name!r}] changed after another design with the same term name was built"))
                    break
    if not problems:
        problems += later_blocks(case, dm, exp, df, acc)
    nontriv = any(set(a for t in EFFECTS[e] for a in t) & CATS or len(GROUPINGS[g]) > 1 or len(GROUPINGS[g][0]) > 1 for e, z, g in case["terms"])
    if problems:
        acc.case(f, "MISMATCH", sample=False)
        seen = set()
        for clause, sig, msg in problems:
            if (clause, sig) not in seen:
                seen.add((clause, sig))
                acc.violation(clause, sig, case, f"{f!r} lv={case['lv']}: {msg}")
    else:
        acc.case([f, case["lv"], case.get("holes", False), case.get("cat", False)], "ok", nontrivial=nontriv)


def classify(case, clause, sig, detail):
    """The effect expressions of the formula (the grouping expression and the frame do not matter)."""
    return "&".join(sorted(("0+" if zero else "") + e.replace(" ", "") for e, zero, g in case["terms"]))


def snippet(case):
    return f"from fmc.checks import c05\ndf = c05.frame({tuple(case['lv'])}, {case.get('holes', False)})\nfrom formulae import design_matrices\nprint(design_matrices({formula_of(case)!r}, df).group)"

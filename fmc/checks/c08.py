"""C08 - row equivariance and independence from irrelevant frame structure (DESIGN.md 3, C08)."""
import copy
import itertools

import numpy as np
import pandas as pd

from fmc.checks import c06

ID = "C08"
RULE = (
    "for every formula of the pool: all 120 row permutations of a 5-row frame; breadth-first search of the Cayley "
    "graph of an 8-row frame under adjacent transpositions, rotation and reversal to depth 2; 8 index alphabets "
    "(range, shuffled ints, duplicated labels, strings, floats, mixed, MultiIndex, datetime); all 24 orders of four "
    "used columns and every subset of 4 unused columns (all-NaN, object-typed, named like a built-in, named np).  "
    "M(pi D) must equal pi M(D) with identical labels, levels, slices and the same encoding of a probe frame; index "
    "and column changes must have no effect at all.  A case is one (formula, transformation family); non-trivial: "
    "the formula has a categorical or a stateful transform"
    '  Added: named indexes, duplicated junk columns, unused all-NaN columns under every na_action, a column 3e7 '
    '+ small under scale / center, an observation-level factor, the probe rows evaluated in every order on one '
    'design, the data-frame view of each of those results. '
    'Later: unseen levels under index relabelling, case-only differing values, a used label occurring twice, '
    "1500-row frames, ties, the first design's lists reversed before the transformed frames are built. "
)
ASSUMPTIONS = ["tolerance rtol=1e-9/atol=1e-12 for permuted reductions (summation order)", "fitted parameters are compared through the encoding of a fixed probe frame"]

POOL = [
    "y ~ x", "y ~ f", "y ~ 0 + f", "y ~ f:g", "y ~ f*g", "y ~ x:f", "y ~ center(x)", "y ~ scale(x)", "y ~ bs(x, df=4)", "y ~ bs(x, df=3, degree=2)",
    "y ~ poly(x, 2)", "y ~ scale(x):f", "y ~ np.log(x) + I(x * z)", "y ~ C(f)", "y ~ C(f, Sum)", "y ~ T(f, 'c')", "y ~ S(f, 'a')",
    "y ~ C(k)", "y ~ o", "y ~ C(o)", "y ~ o:x", "y ~ scale(center(x)) + poly(scale(z), 2)", "y ~ (1|g)", "y ~ (x|g)", "y ~ (f|g)",
    "y ~ (0 + f|g)", "y ~ (scale(x)|g)", "y ~ x + (x|g:h)", "y ~ (1|C(k))", "y ~ (center(x) + f|g) + (1|h)", "o ~ x + f",
    "f ~ scale(x)", "o[a] ~ x", "binary(f, 'b') ~ x", "y ~ binary(f) + x", "y ~ f + g + f:g:x", "y ~ bs(x, df=5, intercept=True):g",
    "y ~ minmax(x) + (minmax(z)|g)", "y ~ scale(xb)", "y ~ center(xb) + (scale(xb)|g)", "y ~ I(np.log(x) * z)", "y ~ {center(x) + z}", "y ~ {x / np.sqrt(z)}", "y ~ scale(np.log(x) + z) + I(z - np.exp(x / 10))", "y ~ I(f)", "y ~ 0 + up(f):x", "y ~ x + (x|up(g))", "y ~ (0 + I(f)|g)",
    "y ~ bs(xt, df=4) + f", "y ~ poly(xt, 2):g + (bs(xt, df=3)|g)",  # a covariate with tied values
    "y ~ binary(cs) + x", "binary(cs) ~ x", "y ~ cs", "y ~ (1|cs)",  # values that differ only in case
    "y ~ 0 + u", "y ~ x + (1|u)", "y ~ (0 + x|u) + f",  # an observation-level factor: as many levels as rows
]
FIVE = [0, 1, 2, 3, 5]  # rows of c06.frame: all levels of f (b, c, a), both of g


def prepare(tier, seed):
    c06.prepare(tier, seed)


def base(n, nan=False):
    df = c06.frame("str")
    if n == 5:
        df = df.iloc[FIVE].reset_index(drop=True)
    if n == 6:
        df = df.iloc[FIVE + [6]].reset_index(drop=True)
    if nan:  # one incomplete row (dropped by default): equivariance must hold for the retained rows
        df = df.copy()
        df.loc[2, "x"] = np.nan
        df.loc[2, "f"] = None
    return df


_TIER = "quick"


ENVONLY = ["I(yv) ~ I(xv) + np.log(xv)", "I(yv) ~ 0 + scale(xv)"]  # formulas that mention no column of the frame


def units(tier, seed):
    fams = ["perm5", "cayley8", "index", "columns", "cayley8-nan", "index-nan"]
    pool = list(POOL)
    if tier == "thorough":
        fams += ["perm6"]
        pool = list(dict.fromkeys(pool + [f for f in c06.pool("quick") if "lv" not in f or True]))
    large = ["y ~ x + (x|g)", "y ~ (0 + f|g) + (1|h)", "y ~ f:g + scale(x)", "y ~ (scale(x)|g:h) + f", "y ~ o + (1|cs)", "f ~ x + (1|g)", "y ~ bs(x, df=4) + (center(x)|h)", "y ~ 0 + f:x + (f|g)"]
    return [[{"formula": f, "family": "large", "tier": tier}] for f in large] + [[{"formula": f, "family": fam, "tier": tier}] for f in pool for fam in fams] + [[{"formula": f, "family": fam, "tier": tier}] for f in ENVONLY for fam in ("index", "columns")]


def expand(unit):
    return unit


def build(formula, df, na_action="drop"):
    return c06.build(formula, df, na_action)


def snapshot(dm, probe):
    s = {}
    for nm, M in (("response", dm.response), ("common", dm.common), ("group", dm.group)):
        if M is None:
            s[nm] = None
            continue
        e = {"m": np.asarray(M.design_matrix, dtype=float)}
        if nm == "response":
            e["levels"] = None if M.levels is None else list(M.levels)
            e["kind"] = M.kind
            e["labels"] = list(M.as_dataframe().columns)
        else:
            e["slices"] = {k: (v.start, v.stop) for k, v in M.slices.items()}
            e["labels"] = {k: list(t.labels) for k, t in M.terms.items()}
            e["levels"] = {k: copy.deepcopy(getattr(t, "levels", None) if nm == "common" else t.groups) for k, t in M.terms.items()}  # (own copies)
            e["probe"] = np.asarray(M.evaluate_new_data(probe).design_matrix, dtype=float)
        s[nm] = e
    return s


def compare(a, b, perm, exact, what, problems):
    for nm in ("response", "common", "group"):
        x, y = a[nm], b[nm]
        if perm is not None and x is not None and len(perm) != x["m"].shape[0]:
            # an incomplete row (index 2) was dropped: the permutation acts on the retained rows
            kept = [i for i in range(len(perm)) if i != 2]
            pos = {i: j for j, i in enumerate(kept)}
            perm = [pos[p] for p in perm if p in pos]
        if (x is None) != (y is None):
            problems.append(("structure", f"{what}: {nm} present/absent differs"))
            continue
        if x is None:
            continue
        want = x["m"][perm] if perm is not None else x["m"]
        if want.shape != y["m"].shape:
            problems.append(("rows-permuted" if perm is not None else "no-effect", f"{what}: {nm} has shape {y['m'].shape}, expected {want.shape}"))
        elif exact and not np.array_equal(want, y["m"], equal_nan=True):
            problems.append(("no-effect", f"{what}: {nm} matrix changed"))
        elif not np.allclose(want, y["m"], rtol=1e-9, atol=1e-12, equal_nan=True):
            problems.append(("rows-permuted", f"{what}: {nm} matrix is not the row-permuted original"))
        for k in ("labels", "levels", "slices", "kind"):
            if k in x and x[k] != y.get(k):
                problems.append(("nothing-else-changes", f"{what}: {nm} {k} changed: {x[k]} -> {y.get(k)}"))
        if "probe" in x:
            if x["probe"].shape != y["probe"].shape or not np.allclose(x["probe"], y["probe"], rtol=1e-9, atol=1e-12, equal_nan=True):
                problems.append(("nothing-else-changes", f"{what}: {nm} encodes the probe frame differently (fitted parameters / levels changed)"))


def cayley(n, depth):
    gens = []
    for i in range(n - 1):
        p = list(range(n))
        p[i], p[i + 1] = p[i + 1], p[i]
        gens.append(tuple(p))
    gens.append(tuple(list(range(1, n)) + [0]))
    gens.append(tuple(range(n - 1, -1, -1)))
    seen = {tuple(range(n))}
    frontier = [tuple(range(n))]
    out = []
    for _ in range(depth):
        nxt = []
        for p in frontier:
            for g in gens:
                q = tuple(p[i] for i in g)
                if q not in seen:
                    seen.add(q)
                    nxt.append(q)
                    out.append(q)
        frontier = nxt
    return out


def indexes(n):
    rng = list(range(n))
    return {
        "shuffled-int": [7, 3, 11, 0, 5, 2, 9, 1][:n],
        "duplicated": [1, 1, 2, 2, 1, 3, 3, 1][:n],
        "strings": list("hcafbegd")[:n],
        "floats": [0.5, -1.0, 2.25, 1e3, -0.0, 3.5, 7.0, 0.1][:n],
        "mixed": [0, "a", 2.5, None, "b", 1, (1, 2), "a"][:n],
        "multi": pd.MultiIndex.from_tuples([(i % 2, "k%d" % (i // 2)) for i in rng]),
        "datetime": pd.date_range("2020-01-01", periods=n)[::-1],
        "negative-desc": [-i for i in rng],
    }


def check_case(case, acc):
    from fmc.core import exc_sig

    f, fam = case["formula"], case["family"]
    problems = []
    n = 5 if fam == "perm5" else 6 if fam == "perm6" else 8
    nan = fam.endswith("-nan")
    fam = fam.replace("-nan", "")
    D = base(n, nan)
    if fam == "large":  # 1500 rows (the 8 rows over and over, x and z shifted a little from block to block)
        D = pd.concat([D] * 188, ignore_index=True).iloc[:1500].copy()
        D["x"] = D["x"] + (np.arange(1500) // 8) * 0.001
        D["z"] = D["z"] + (np.arange(1500) // 8) * 0.002
    probe = base(8).iloc[[6, 1, 4]].reset_index(drop=True) if f not in ENVONLY else base(8)  # caller arrays have 8 entries
    if "u" in f.replace("up(", "") or "np.floor(" in f or "np.round(" in f:  # an observation-level / value-derived factor: the probe can only hold rows the design has seen
        probe = base(n).iloc[[n - 1, 1, 3]].reset_index(drop=True)
    acc.calls += 1
    try:
        dm0 = build(f, D)
        ref = snapshot(dm0, probe)
        # the same for later frames: the design evaluates the probe rows in every order, one after the other
        if f not in ENVONLY:
            for nm, M in (("common", dm0.common), ("group", dm0.group)):
                if M is None:
                    continue
                for p in itertools.permutations(range(len(probe))):
                    acc.calls += 1
                    res = M.evaluate_new_data(probe.iloc[list(p)].reset_index(drop=True))
                    got = np.asarray(res.design_matrix, dtype=float)
                    want = ref[nm]["probe"][list(p)]
                    if nm == "common":  # the data-frame view of that result shows the same rows under the same labels
                        view = res.as_dataframe()
                        if list(view.columns) != [l for t in M.terms.values() for l in t.labels] or not np.array_equal(view.to_numpy(dtype=float), got, equal_nan=True):
                            problems.append(("rows-permuted", f"common.evaluate_new_data(probe rows {list(p)}).as_dataframe() does not show the rows of that result"))
                            break
                    if got.shape != want.shape or not np.allclose(got, want, rtol=1e-9, atol=1e-12, equal_nan=True):
                        problems.append(("rows-permuted", f"{nm}.evaluate_new_data on the probe rows in order {list(p)} is not the row-permuted result of the probe"))
                        break
        # the lists the first design hands out are the caller's: reordering them must not reach any design built later
        for M in (dm0.response, dm0.common, dm0.group):
            if M is None:
                continue
            handed = [getattr(M, "levels", None)] + [getattr(t, "levels", None) for t in getattr(M, "terms", {}).values()] + [getattr(getattr(t, "factor", None), "levels", None) for t in getattr(M, "terms", {}).values()]
            for lst in handed:
                if isinstance(lst, list) and len(lst) > 1:
                    lst.reverse()
        # a later frame holding unseen levels (mode 'silent'): its index labels and its row order play no role either
        if f not in ENVONLY:
            import formulae

            old = formulae.config["EVAL_UNSEEN_CATEGORIES"]
            try:
                formulae.config["EVAL_UNSEEN_CATEGORIES"] = "silent"
                pr = probe.copy()
                for c_ in ("f", "g", "o", "cs"):
                    pr[c_] = pr[c_].astype(object)
                    pr.loc[1, c_] = "zz"
                pr.loc[1, "k"] = 777
                for nm, M in (("common", dm0.common), ("group", dm0.group)):
                    if M is None:
                        continue
                    try:
                        r0 = np.asarray(M.evaluate_new_data(pr).design_matrix, dtype=float)
                    except Exception:
                        continue  # (an unseen value this design cannot take, e.g. the success value of binary: not this check's business)
                    for what, fr, rows in (("index [7, 3, 11]", pr.set_axis([7, 3, 11]), [0, 1, 2]), ("index [2, 2, 2]", pr.set_axis([2, 2, 2]), [0, 1, 2]), ("a string index", pr.set_axis(list("qpr")), [0, 1, 2]),
                                           ("rows [2, 0, 1] keeping their labels", pr.iloc[[2, 0, 1]], [2, 0, 1]), ("rows [1, 2, 0] relabelled", pr.iloc[[1, 2, 0]].reset_index(drop=True), [1, 2, 0])):
                        acc.calls += 1
                        try:
                            got = np.asarray(M.evaluate_new_data(fr).design_matrix, dtype=float)
                        except Exception as e:
                            problems.append(("no-effect", f"{nm}.evaluate_new_data on a frame with unseen levels (silent mode) and {what} raised {type(e).__name__}: {e}"))
                            break
                        if got.shape != r0[rows].shape or not np.allclose(got, r0[rows], rtol=1e-9, atol=1e-12, equal_nan=True):
                            problems.append(("no-effect" if rows == [0, 1, 2] else "rows-permuted", f"{nm}.evaluate_new_data on a frame with unseen levels (silent mode): {what} changes the result"))
                            break
            finally:
                formulae.config["EVAL_UNSEEN_CATEGORIES"] = old
    except Exception as e:
        acc.case(case, "build-raises", sample=False)
        acc.violation("design-exists", exc_sig(e), case, f"{f!r} on the base frame raised {type(e).__name__}: {e}")
        return
    variants = []
    if fam in ("perm5", "perm6", "cayley8"):
        if fam == "cayley8":
            perms = cayley(8, 3 if case.get("tier") == "thorough" else 2)
        else:
            perms = [p for p in itertools.permutations(range(n)) if p != tuple(range(n))]
        for p in perms:
            variants.append((f"rows {list(p)}", D.iloc[list(p)].reset_index(drop=True), list(p), False))
    elif fam == "large":
        rng = np.random.RandomState(4)
        for what, p in (("reversed", list(range(1499, -1, -1))), ("rotated by 7", list(range(7, 1500)) + list(range(7))), ("shuffled", rng.permutation(1500).tolist()),
                        ("halves swapped at 1024", list(range(1024, 1500)) + list(range(1024)))):
            variants.append((f"1500 rows {what}", D.iloc[p].reset_index(drop=True), p, False))
    elif fam == "index":
        for nm, ix in indexes(n).items():
            d2 = D.copy()
            d2.index = ix
            variants.append((f"index {nm}", d2, None, True))
        for nm in ("x", "y", "f", "lv", "np"):  # a *named* index: the name equals a used column / a caller name
            d2 = D.copy()
            d2.index = pd.Index([7, 3, 11, 0, 5, 2, 9, 1][:n], name=nm)
            variants.append((f"index named {nm!r}", d2, None, True))
        d2 = D.iloc[[3, 0, 2, 1, 4, 7, 6, 5]]  # permuted rows keeping their old labels
        if f not in ENVONLY:
            variants.append(("rows [3,0,2,1,4,7,6,5] with the original labels kept", d2, [3, 0, 2, 1, 4, 7, 6, 5], False))
    else:
        cols = list(D.columns)
        for p in itertools.permutations(["x", "f", "g", "y"]):
            order = list(p) + [c for c in cols if c not in p]
            variants.append((f"column order {order}", D[order], None, True))
            variants.append((f"column order {order[::-1]}", D[order[::-1]], None, True))
        extra = {"allnan": np.nan, "objs": [[1], {"a": 2}, None, (3,), "s", 1.5, b"b", [2]], "center": list("abcdefgh"), "np": np.arange(8.0)}
        # unused columns named like the string literals of the pool's calls (T(f, 'c'), S(f, 'a'), binary(f, 'b')), with missing values
        d2 = D.copy()
        for c in ("a", "b", "c"):
            d2[c] = [np.nan, 1.0] * 4
        variants.append(("extra unused columns named a, b, c (with NaN)", d2, None, True))
        for r in range(1, 5):
            for sub in itertools.combinations(extra, r):
                d2 = D.copy()
                for c in sub:
                    d2[c] = extra[c]
                variants.append((f"extra unused columns {list(sub)}", d2, None, True))
                d3 = d2[list(sub) + cols]
                variants.append((f"extra unused columns {list(sub)} first", d3, None, True))
        # two unused columns sharing one name (e.g. after a concat)
        d2 = pd.concat([D, D[["z", "h"]].set_axis(["junk", "junk"], axis=1)], axis=1)
        variants.append(("two unused columns both named 'junk'", d2, None, True))
        if f in ENVONLY:
            variants.append(("a frame with rows but no columns at all", pd.DataFrame(index=D.index), None, True))
            variants.append(("a frame with one unused column", D[["h"]], None, True))
        used = set("xyfg") | {c for c in cols if c in f}
        drop = [c for c in cols if c not in used and c not in f]
        if drop:
            variants.append((f"without unused columns {drop}", D.drop(columns=drop), None, True))
    if fam == "columns" and f not in ENVONLY:
        # a USED label occurring twice with different contents: whatever the library does with such a frame (it refuses it),
        # it does the same for every order of the two columns
        outcomes = []
        import re

        bare = f
        while True:  # drop every call with its arguments: what is left names the plain variables
            nxt = re.sub(r"[A-Za-z_][A-Za-z0-9_.]*\([^()]*\)", "", bare)
            if nxt == bare:
                break
            bare = nxt
        for dup in ("x", "f", "g"):
            if not re.search(rf"\b{dup}\b", bare):
                continue  # (inside a call the two columns arrive as one two-column object: what a function makes of that is its own business)
            other = (D[dup] * 2 + 1) if dup == "x" else D[dup].iloc[::-1].reset_index(drop=True)
            base_cols = [c for c in D.columns if c != dup]
            for first, second in ((D[dup], other), (other, D[dup])):
                d2 = pd.concat([first.rename(dup), D[base_cols], second.rename(dup)], axis=1)
                acc.calls += 1
                try:
                    outcomes.append((dup, "design", snapshot(build(f, d2), probe)))
                except Exception as e:
                    outcomes.append((dup, "refused", type(e).__name__))
        for (d1, k1, o1), (d2_, k2, o2) in zip(outcomes[::2], outcomes[1::2]):
            if k1 != k2:
                problems.append(("no-effect", f"two columns labelled {d1!r}: {k1} in one order of the two, {k2} in the other"))
            elif k1 == "design":
                tmp = []
                compare(o1, o2, None, True, f"two columns labelled {d1!r} in the other order", tmp)
                problems.extend(tmp[:1])
    for what, d2, perm, exact in variants:
        acc.calls += 1
        acc.traces += 1
        try:
            s2 = snapshot(build(f, d2), probe)
        except Exception as e:
            problems.append(("design-exists", f"{what}: raised {type(e).__name__}: {e}"))
            continue
        compare(ref, s2, perm, exact, what, problems)
        if fam == "columns" and not nan and "unused" in what:
            # missing values live in unused columns only: every na_action must give the same design
            for na in ("error", "pass"):
                acc.calls += 1
                try:
                    compare(ref, snapshot(build(f, d2, na), probe), perm, exact, what + f" with na_action={na!r}", problems)
                except Exception as e:
                    problems.append(("no-effect", f"{what} with na_action={na!r}: raised {type(e).__name__}: {e}"))
    acc.subcases(case, len(variants) - 1, True, "transformed-frames")
    nontriv = any(t in f for t in ("f", "g", "o", "C(", "scale", "center", "bs(", "poly", "minmax"))
    if problems:
        acc.case(case, "MISMATCH", sample=False)
        seen = set()
        for clause, msg in problems:
            if clause not in seen:
                seen.add(clause)
                acc.violation(clause, "mismatch", case, f"{f!r}: {msg}")
    else:
        acc.case(case, "ok", nontrivial=nontriv)


def classify(case, clause, sig, detail):
    return "-"


def snippet(case):
    return f"# fmc.checks.c08: formula {case['formula']!r}, family {case['family']}"

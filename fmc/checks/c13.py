"""C13 - contrast codings are valid, honour their options, and are interchangeable (DESIGN.md 3, C13)."""
import itertools

import numpy as np
import pandas as pd

from fmc import frames
from fmc.refmodel import linalg

ID = "C13"
RULE = (
    "(1) Treatment(ref) and Sum(omit) for every level count 1..12, every reference/omitted level and the default: "
    "shapes, rank with the constant, full span, indicator / zero-reference rows, zero column sums with a -1 row, "
    "labels; also with integer, negative, zero, empty-string and boolean-like levels; (2) C/T/S(..., levels=<perm>) "
    "for all permutations of 1..5 (thorough: 6) levels and every reference: order, default reference, labels, columns; "
    "(3) every formula of the pool x every assignment of codings {variable, C, T(ref), S, S(omit), C(.,Sum), "
    "C(.,Treatment(ref))} to its factors: the column space of the common (and group) matrix must not change.  "
    "Non-trivial: more than two levels, or a non-default coding"
    '  Added: levels= as a tuple, nested boxes C(S(v), levels=lv), str / ordered / unordered (unsorted '
    'categories) columns for the plain variable, C(v), T(v); labels read twice and per term; the call followed '
    'by another term; later frames after the caller rebound lv, with an ordered Categorical declaring another '
    'order, and with one unseen level in silent mode. '
    'Later: near-duplicate and number-or-text level sets, levels= not covering the data, 1100-row columns, '
    'nested boxes with inner levels, full coding with reference and levels, subtractions in the swap pool, '
    'level lists reversed by the caller. '
)
ASSUMPTIONS = ["rank decisions by SVD with a gap check", "the same encoding object may be used for several factors (C(f, enc) + C(g, enc))"]

LEVELSETS = {
    "str": lambda n: [f"l{i:02d}" for i in range(n)],
    "int": lambda n: [i - 1 for i in range(n)],  # includes -1, 0 (falsy) and positive ints
    "mixed-falsy": lambda n: ["", "0", "a", "b", "c", "d", "e", "f", "g", "h", "i", "j"][:n],
    "near": lambda n: ["B", "a", "b", "a ", " a", "A", "b ", "Ab", "aB", "AB", "ab", "ab "][:n],  # differ only in case / surrounding blanks
    "num-or-text": lambda n: [1, "1", 2, "2", 0, "0", -1, "-1", 10, "10", 3, "3"][:n],  # a number and the text that prints the same
}


def units(tier, seed):
    u = []
    for kind in LEVELSETS:
        for n in range(1, 13):
            u.append([{"k": "algebra", "kind": kind, "n": n}])
    maxp = 5 if tier == "quick" else 6
    for n in range(1, maxp + 1):
        perms = list(itertools.permutations(range(n)))
        for dt in ("str", "ordered", "unordered", "tuple-levels"):
            for i in range(0, len(perms), 24):
                u.append([{"k": "levels", "perm": list(p), "dtype": dt} for p in perms[i : i + 24]])
    for n in (3, 4):
        perms = list(itertools.permutations(range(n)))
        for i in range(0, len(perms), 6):
            u.append([{"k": "levels", "perm": list(p), "dtype": "str", "long": True} for p in perms[i : i + 6]])
    for f in POOL:
        u.append([{"k": "swap", "f": f}])
    u.append([{"k": "shared-encoding"}])
    return u


def expand(unit):
    return unit


def check_algebra(case, acc):
    from formulae.categorical import Treatment, Sum

    levels = LEVELSETS[case["kind"]](case["n"])
    n = len(levels)
    problems = []

    def lab(l):
        return str(l)

    for ref in [None] + levels:
        acc.calls += 2
        acc.traces += 1
        # ---- treatment
        t = Treatment(ref) if ref is not None else Treatment()
        red = t.code_without_intercept(list(levels))
        full = t.code_with_intercept(list(levels))
        M, F = np.asarray(red.matrix, dtype=float), np.asarray(full.matrix, dtype=float)
        refi = 0 if ref is None else levels.index(ref)
        tag = f"Treatment({ref!r}) on {n} levels ({case['kind']})"
        if M.shape != (n, n - 1) or len(red.labels) != n - 1:
            problems.append(("treatment", f"{tag}: reduced matrix {M.shape}, {len(red.labels)} labels"))
        else:
            if n > 1 and linalg.rank(np.column_stack([np.ones(n), M])) != n:
                problems.append(("treatment", f"{tag}: [1, reduced] does not have rank {n}"))
            exp_labels = [lab(l) for i, l in enumerate(levels) if i != refi]
            if list(red.labels) != exp_labels:
                problems.append(("treatment", f"{tag}: labels {list(red.labels)}, expected {exp_labels}"))
            others = [i for i in range(n) if i != refi]  # (by position: two levels may print the same)
            expM = np.array([[1.0 if i == o else 0.0 for o in others] for i in range(n)]).reshape(n, n - 1)
            if not np.array_equal(M, expM):
                problems.append(("treatment", f"{tag}: columns are not the level indicators with a zero reference row"))
        if F.shape != (n, n) or linalg.rank(F) != n or list(full.labels) != [lab(l) for l in levels] or not np.array_equal(F, np.eye(n)):
            problems.append(("treatment", f"{tag}: full coding is not the complete set of level indicators"))
        # ---- sum
        s = Sum(ref) if ref is not None else Sum()
        red = s.code_without_intercept(list(levels))
        full = s.code_with_intercept(list(levels))
        M, F = np.asarray(red.matrix, dtype=float), np.asarray(full.matrix, dtype=float)
        om = n - 1 if ref is None else levels.index(ref)
        tag = f"Sum({ref!r}) on {n} levels ({case['kind']})"
        if M.shape != (n, n - 1) or len(red.labels) != n - 1:
            problems.append(("sum", f"{tag}: reduced matrix {M.shape}, {len(red.labels)} labels"))
        else:
            exp_labels = [lab(l) for i, l in enumerate(levels) if i != om]
            if list(red.labels) != exp_labels:
                problems.append(("sum", f"{tag}: labels {list(red.labels)}, expected {exp_labels}"))
            if n > 1:
                if linalg.rank(np.column_stack([np.ones(n), M])) != n:
                    problems.append(("sum", f"{tag}: [1, reduced] does not have rank {n}"))
                if not np.array_equal(M.sum(axis=0), np.zeros(n - 1)):
                    problems.append(("sum", f"{tag}: columns do not add up to zero over the levels"))
                if not np.array_equal(M[om], -np.ones(n - 1)):
                    problems.append(("sum", f"{tag}: the omitted level is not coded -1"))
                rest = np.delete(M, om, axis=0)
                if not np.array_equal(rest, np.eye(n - 1)):
                    problems.append(("sum", f"{tag}: the other levels are not coded by their own indicator"))
        if F.shape != (n, n) or linalg.rank(F) != n:
            problems.append(("sum", f"{tag}: full coding {F.shape} does not span all level indicators"))
        elif list(full.labels)[1:] != [lab(l) for i, l in enumerate(levels) if i != om] or not np.array_equal(F[:, 0], np.ones(n)):
            problems.append(("sum", f"{tag}: full coding is not [constant | reduced] with matching labels {list(full.labels)}"))
    report(case, acc, problems, nontrivial=case["n"] > 2)


def check_levels(case, acc):
    """C/T/S with levels=<perm of the levels>."""
    from formulae import design_matrices

    perm = case["perm"]
    names = ["p", "q", "r", "s", "t", "u"]
    base = names[: len(perm)]
    lv = [base[i] for i in perm]  # noqa: F841 (the formula refers to it)
    col = base + base[::-1] + base[:1]
    if case.get("long"):  # more than a thousand rows
        col = col * (1100 // len(col) + 1)
    df = pd.DataFrame({"v": col, "y": np.arange(len(col)) * 1.0})
    if case.get("dtype") == "ordered":  # the dtype has its own order: an explicit levels= must still win
        df["v"] = pd.Categorical(df["v"], categories=base[::-1], ordered=True)
    elif case.get("dtype") == "unordered":
        df["v"] = pd.Categorical(df["v"], categories=base[1:] + base[:1])
    n = len(base)
    problems = []

    passed = {"lv": tuple(lv) if case.get("dtype") == "tuple-levels" else lv, "lv0": list(base[1:]) + list(base[:1])}  # (the closure below must not capture `lv` itself)

    built = []

    def design(formula):
        acc.calls += 1
        acc.traces += 1
        dm = design_matrices(formula, df, extra_namespace=passed)
        labs, X = list(dm.common.as_dataframe().columns), np.asarray(dm.common.design_matrix, dtype=float)
        built.append((formula, dm, labs, X.copy()))
        return labs, X

    def ind(l):
        return np.array([1.0 if v == l else 0.0 for v in col])

    # without levels=: a str column and an unordered Categorical (whatever order its dtype stores) use the sorted levels,
    # an ordered Categorical its declared order; the plain variable and C(variable) agree
    natural = base[::-1] if case.get("dtype") == "ordered" else sorted(base)
    for call in ("v", "C(v)", "T(v)"):
        labs, X = design(f"y ~ 0 + {call}")
        if labs != [f"{call}[{l}]" for l in natural] or not all(np.array_equal(X[:, j], ind(l)) for j, l in enumerate(natural)):
            problems.append(("levels-order", f"'0 + {call}' ({case.get('dtype')} column): columns {labs} are not the indicators of {natural} in that order"))
        if n > 1:
            labs, X = design(f"y ~ {call}")
            if labs != ["Intercept"] + [f"{call}[{l}]" for l in natural[1:]] or not all(np.array_equal(X[:, j + 1], ind(l)) for j, l in enumerate(natural[1:])):
                problems.append(("default-reference", f"'{call}' ({case.get('dtype')} column): columns {labs}; expected the first level {natural[0]} as reference"))
    for call, kind in (("C(v, levels=lv)", "t"), ("T(v, levels=lv)", "t"), ("C(v, Treatment, levels=lv)", "t"), ("S(v, levels=lv)", "s"), ("C(v, Sum, levels=lv)", "s"),
                       ("C(S(v), levels=lv)", "s"), ("C(C(v, Sum), levels=lv)", "s"), ("C(T(v), levels=lv)", "t"), ("C(C(v), levels=lv)", "t"),
                       ("C(T(v, levels=lv0), levels=lv)", "t"), ("C(S(v, levels=lv0), levels=lv)", "s")):  # the outer levels are the ones in force
        # full coding: one indicator per level in the order given
        labs, X = design(f"y ~ 0 + {call}")
        if kind == "t":
            if labs != [f"{call}[{l}]" for l in lv] or not all(np.array_equal(X[:, j], ind(l)) for j, l in enumerate(lv)):
                problems.append(("levels-order", f"'0 + {call}' with lv={lv}: columns {labs} are not the indicators in that order"))
        elif n > 1 and linalg.rank(X) != n:
            problems.append(("levels-order", f"'0 + {call}' with lv={lv}: full Sum coding has rank {linalg.rank(X)}"))
        # reduced coding, default reference = first level (treatment) / omitted = last level (sum)
        if n > 1:
            labs, X = design(f"y ~ {call}")
            if kind == "t":
                exp = [f"{call}[{l}]" for l in lv[1:]]
                if labs != ["Intercept"] + exp or not all(np.array_equal(X[:, j + 1], ind(l)) for j, l in enumerate(lv[1:])):
                    problems.append(("default-reference", f"'{call}' with lv={lv}: columns {labs}; expected the first level {lv[0]} as reference and the others in order"))
            else:
                exp = [f"{call}[{l}]" for l in lv[:-1]]
                okv = all(np.array_equal(X[:, j + 1], ind(l) - ind(lv[-1])) for j, l in enumerate(lv[:-1])) if labs == ["Intercept"] + exp else False
                if not okv:
                    problems.append(("default-reference", f"'{call}' with lv={lv}: columns {labs}; expected the last level {lv[-1]} omitted (coded -1) and the others in order"))
    if n > 1:
        for ref in lv:
            for call in (f"T(v, '{ref}', levels=lv)", f"T(v, ref='{ref}', levels=lv)", f"C(v, Treatment('{ref}'), levels=lv)"):
                labs, X = design(f"y ~ {call}")
                rest = [l for l in lv if l != ref]
                if labs != ["Intercept"] + [f"{call}[{l}]" for l in rest] or not all(np.array_equal(X[:, j + 1], ind(l)) for j, l in enumerate(rest)):
                    problems.append(("reference-honoured", f"'{call}' with lv={lv}: columns {labs}"))
                labs, X = design(f"y ~ 0 + {call}")  # full coding: every level, in the declared order (the reference plays no role)
                if labs != [f"{call}[{l}]" for l in lv] or not all(np.array_equal(X[:, j], ind(l)) for j, l in enumerate(lv)):
                    problems.append(("levels-order", f"'0 + {call}' with lv={lv}: columns {labs} are not the indicators in the declared order"))
            for call in (f"S(v, '{ref}', levels=lv)", f"S(v, omit='{ref}', levels=lv)", f"C(v, Sum('{ref}'), levels=lv)"):
                labs, X = design(f"y ~ {call}")
                rest = [l for l in lv if l != ref]
                if labs != ["Intercept"] + [f"{call}[{l}]" for l in rest] or not all(np.array_equal(X[:, j + 1], ind(l) - ind(ref)) for j, l in enumerate(rest)):
                    problems.append(("reference-honoured", f"'{call}' with lv={lv}: columns {labs}"))
    # the designs keep their labels and their coding: reading the labels again, the same call followed by another term,
    # and later frames (a categorical column declaring another order; the caller's `lv` rebound meanwhile)
    for formula, dm, labs, X in list(built):
        again = list(dm.common.as_dataframe().columns)
        per_term = [l for t in dm.common.terms.values() for l in t.labels]
        if again != labs or per_term != labs:
            problems.append(("labels-stable", f"{formula!r} with lv={lv}: labels {labs}, read again {again}, per term {per_term}"))
            break
    if n > 1:
        for call in ("C(v, levels=lv)", "S(v, levels=lv)", f"T(v, '{lv[-1]}', levels=lv)"):
            l1, X1 = design(f"y ~ 0 + {call}")
            dm2 = design_matrices(f"y ~ 0 + {call} + y", df, extra_namespace=passed)
            acc.calls += 1
            for rep in range(2):
                l2 = list(dm2.common.as_dataframe().columns)
                per_term = [l for t in dm2.common.terms.values() for l in t.labels]
                if l2 != l1 + ["y"] or per_term != l2 or not np.array_equal(np.asarray(dm2.common.design_matrix, dtype=float)[:, :-1], X1):
                    problems.append(("labels-stable", f"'0 + {call} + y' with lv={lv} (reading {rep + 1}): labels {l2} / per term {per_term}, expected {l1 + ['y']} with the same columns"))
                    break
        later = df.copy()
        later["v"] = pd.Categorical(list(df["v"]), categories=sorted(base, reverse=(case.get("dtype") != "ordered")), ordered=True)
        passed["lv"] = type(passed["lv"])(list(passed["lv"])[::-1])  # the caller's name now means another order
        for formula, dm, labs, X in built:
            for what, nd in (("the training frame", df), ("a frame whose column is an ordered Categorical declaring another order", later)):
                acc.calls += 1
                try:
                    got = np.asarray(dm.common.evaluate_new_data(nd).design_matrix, dtype=float)
                except Exception as e:
                    problems.append(("coding-kept-on-new-data", f"{formula!r} with lv={lv}: evaluate_new_data on {what} raised {type(e).__name__}: {e}"))
                    break
                if got.shape != X.shape or not np.array_equal(got, X):
                    problems.append(("coding-kept-on-new-data", f"{formula!r} built with lv={lv}: evaluate_new_data on {what}, after the caller rebound lv, does not reproduce the training matrix"))
                    break
            else:
                continue
            break
    # levels= that does not cover the data (a level left out; the right labels as text for an integer column): refused - or, if
    # accepted, every column still is the indicator of the level its label names
    if n > 1:
        vi = [base.index(v_) + 1 for v_ in col]
        dfi = pd.DataFrame({"v": col, "vi": vi, "y": np.arange(len(col)) * 1.0})
        for what, call, ns, colname, want_of in (
            ("a level of the data left out", "C(v, levels=sub)", {"sub": lv[:-1]}, "v", lambda l: np.array([1.0 if v_ == l else 0.0 for v_ in col])),
            ("a level of the data left out", "T(v, levels=sub)", {"sub": lv[1:]}, "v", lambda l: np.array([1.0 if v_ == l else 0.0 for v_ in col])),
            ("text labels for an integer column", "C(vi, levels=txt)", {"txt": [str(i + 1) for i in range(n)]}, "vi", lambda l: np.array([1.0 if str(v_) == l else 0.0 for v_ in vi])),
        ):
            acc.calls += 1
            try:
                dmx = design_matrices(f"y ~ 0 + {call}", dfi, extra_namespace=ns)
            except Exception:
                continue  # refused: fine
            Xs = np.asarray(dmx.common.design_matrix, dtype=float)
            labs_ = list(dmx.common.as_dataframe().columns)
            okc = Xs.shape[1] == len(labs_) and all(l.startswith(call + "[") and np.array_equal(Xs[:, j], want_of(l[len(call) + 1 : -1])) for j, l in enumerate(labs_))
            if not okc:
                problems.append(("levels-cover-the-data", f"'0 + {call}' with {ns} ({what}) was accepted, but its columns {labs_} are not the indicators of the levels they name"))
    # the lists of levels handed out belong to the caller: reversing them does not change how the design codes its own frame
    for formula, dm, labs, X in built:
        for t in dm.common.terms.values():
            lv_out = getattr(t, "levels", None)
            if isinstance(lv_out, list) and len(lv_out) > 1:
                lv_out.reverse()
        acc.calls += 1
        try:
            got = np.asarray(dm.common.evaluate_new_data(df).design_matrix, dtype=float)
            if got.shape != X.shape or not np.array_equal(got, X):
                problems.append(("coding-kept-on-new-data", f"{formula!r} built with lv={lv}: after the caller reversed the list it got from term.levels, the training frame is coded differently"))
                break
        except Exception as e:
            problems.append(("coding-kept-on-new-data", f"{formula!r}: after the caller reversed the list it got from term.levels, evaluate_new_data raised {type(e).__name__}: {e}"))
            break
    # a later frame with a level the design has not seen (mode 'silent'): the rows of seen levels keep their coding, the
    # unseen row is zero in every column of the factor
    if n > 1:
        import formulae

        old = formulae.config["EVAL_UNSEEN_CATEGORIES"]
        later = df.copy()
        later["v"] = list(df["v"])
        later.loc[0, "v"] = "zz"
        try:
            formulae.config["EVAL_UNSEEN_CATEGORIES"] = "silent"
            for formula, dm, labs, X in built:
                acc.calls += 1
                try:
                    got = np.asarray(dm.common.evaluate_new_data(later).design_matrix, dtype=float)
                except Exception as e:
                    problems.append(("coding-kept-on-new-data", f"{formula!r} with lv={lv}: evaluate_new_data on a frame with an unseen level (silent mode) raised {type(e).__name__}: {e}"))
                    break
                want = X.copy()
                want[0, :] = [1.0 if l == "Intercept" else 0.0 for l in labs]
                if got.shape != want.shape or not np.array_equal(got, want):
                    problems.append(("coding-kept-on-new-data", f"{formula!r} built with lv={lv}: on a frame with one unseen level (silent mode) the other rows do not keep their coding / the unseen row is not zero"))
                    break
        finally:
            formulae.config["EVAL_UNSEEN_CATEGORIES"] = old
    report(case, acc, problems, nontrivial=len(perm) > 2)


POOL = ["f*g - f:g", "f + f:g - f", "f", "0 + f", "f + g", "f:g", "0 + f:g", "f*g", "f + f:g", "x + f:x", "0 + f:x", "f*x", "f:g + x", "g + f:g", "f*g*x", "(f|h)", "(0 + f|h)", "(x + f|h)", "f + (g|h)"]
CODINGS_F = ["f", "C(f)", "T(f, 'fb')", "S(f)", "S(f, 'fa')", "C(f, Sum)", "C(f, Treatment('fc'))"]
CODINGS_G = ["g", "C(g)", "T(g, 'g2')", "S(g)", "S(g, 'g1')", "C(g, Sum)", "C(g, Treatment('g2'))"]
_DF = None


def swap_frame():
    global _DF
    if _DF is None:
        _DF = frames.factorial({"f": 3, "g": 2, "h": 2}, reps=2, seed=11)
    return _DF


def subst(formula, cf, cg):
    out = ""
    for ch in formula:
        out += cf if ch == "f" else cg if ch == "g" else ch
    return out


def check_swap(case, acc):
    from formulae import design_matrices

    df = swap_frame()
    f0 = case["f"]
    problems = []
    acc.calls += 1
    ref = design_matrices("y ~ " + f0, df)
    refc = None if ref.common is None else np.asarray(ref.common.design_matrix, dtype=float)
    refg = None if ref.group is None else np.asarray(ref.group.design_matrix, dtype=float)
    n = 0
    for cf in CODINGS_F:
        for cg in CODINGS_G if "g" in f0 else ["g"]:
            if cf == "f" and cg == "g":
                continue
            n += 1
            f1 = "y ~ " + subst(f0, cf, cg)
            acc.calls += 1
            acc.traces += 1
            try:
                dm = design_matrices(f1, df)
            except Exception as e:
                problems.append(("swap-span", f"{f1!r} raised {type(e).__name__}: {e}"))
                continue
            for nm, a, M in (("common", refc, dm.common), ("group", refg, dm.group)):
                if a is None:
                    continue
                b = np.asarray(M.design_matrix, dtype=float)
                try:
                    ok, rep = linalg.same_span(b, a)
                except linalg.Undecided:
                    acc.undecided += 1
                    continue
                if not ok:
                    problems.append(("swap-span", f"{f1!r}: {nm} column space differs from that of {'y ~ ' + f0!r} ({rep})"))
                elif rep["rank_x"] != rep["ncol"] and linalg.rank(a) == a.shape[1]:
                    problems.append(("swap-span", f"{f1!r}: {nm} matrix lost full column rank ({rep})"))
    acc.subcases(case, n - 1, True, "assignments")
    report(case, acc, problems, nontrivial=True)


def check_shared(case, acc):
    """One encoding object used for two factors / two level orders."""
    from formulae import design_matrices
    from formulae.categorical import Sum, Treatment

    problems = []
    df = swap_frame()
    for enc_s, enc_t in ((Sum("fb"), Treatment("fb")), (Sum(), Treatment())):
        for enc in (enc_s, enc_t):
            lv1, lv2 = ["fa", "fb", "fc"], ["fc", "fa", "fb"]
            for lv in (lv1, lv2, lv1):
                acc.calls += 1
                labs = list(design_matrices("y ~ C(f, enc, levels=lv)", df).common.as_dataframe().columns)[1:]
                dropped = (enc.omit if isinstance(enc, Sum) else enc.reference)
                if dropped is None:
                    dropped = lv[-1] if isinstance(enc, Sum) else lv[0]
                exp = [f"C(f, enc, levels=lv)[{l}]" for l in lv if l != dropped]
                if labs != exp:
                    problems.append(("reference-honoured", f"{type(enc).__name__}({dropped!r}) object reused with levels {lv}: columns {labs}, expected {exp}"))
    enc = Sum("g1")  # noqa: F841
    try:
        acc.calls += 1
        design_matrices("y ~ C(g, enc) + C(h, Sum)", df)
    except Exception as e:
        problems.append(("reference-honoured", f"shared Sum object raised {type(e).__name__}"))
    report(case, acc, problems, nontrivial=True)


def report(case, acc, problems, nontrivial):
    if problems:
        acc.case(case, "MISMATCH", sample=False)
        seen = set()
        for clause, msg in problems:
            if clause not in seen:
                seen.add(clause)
                acc.violation(clause, "mismatch", case, msg)
    else:
        acc.case(case, "ok", nontrivial=nontrivial)


def check_case(case, acc):
    {"algebra": check_algebra, "levels": check_levels, "swap": check_swap, "shared-encoding": check_shared}[case["k"]](case, acc)


def classify(case, clause, sig, detail):
    return "-"


def snippet(case):
    return f"# fmc.checks.c13 case {case!r}"

"""C11 - name resolution order and evaluation environment (DESIGN.md 3, C11)."""
import itertools
import types
import unicodedata

import numpy as np
import pandas as pd

ID = "C11"
RULE = (
    "for each role (call argument via a recording probe; callee; dotted callee ns.fn and ns.sub.fn; back-quoted "
    "argument), each name kind (plain name, name of a built-in) and each env depth 0..3 reached through generated "
    "nested callers with their own locals and globals: every subset of the applicable scopes {data, locals_k, "
    "globals_k, extra_namespace} (built-ins: by choice of name) defines the name with a distinct marker while all "
    "other frames define decoys; the observed winner must be the first match of the reference order; the empty "
    "subset must raise; a winner bound to None still wins; an Environment instance passed as env is used as is.  "
    "Non-trivial: at least two scopes define the name"
    '  Added: keyword and nested roles, dotted arguments, back-quoted names with outer spaces, the Python '
    'builtin abs (not a scope), identifiers that are not NFKC-stable with the normalised spelling as decoy, '
    'sequences of new frames with / without a column of the name (each order on a design of its own), one '
    'Environment object reused with other extra namespaces. '
    'Later: names that read like literals in another case, the probed term in 11- and 15-term models, caller '
    'arrays never overwritten, dotted names with underscore / digit parts, the argument of offset(). '
)
ASSUMPTIONS = ["reference order: data, built-ins, caller locals, caller globals, extra_namespace (callees: without data)"]

MARK = {"data": 1.0, "builtin": 2.0, "local": 3.0, "global": 4.0, "extra": 5.0}
N = 6


def data_frame(extra_cols=None):
    df = pd.DataFrame({"y": np.arange(N) * 1.0, "x": [1.0, 2.0, 4.0, 3.0, 6.0, 5.0]})
    for k, v in (extra_cols or {}).items():
        df[k] = v
    return df


def fmc_probe(v):
    """Records what the argument resolved to, as a constant column."""
    if isinstance(v, pd.Series):
        return np.asarray(v, dtype=float)
    if v is None:
        return np.full(N, -1.0)
    if isinstance(v, type) or callable(v):
        return np.full(N, MARK["builtin"])
    if isinstance(v, str):  # (a name must never arrive as text)
        return np.full(N, -77.0)
    return np.full(N, float(v))


def marker_fn(val):
    def fn(x):
        return np.asarray(x, dtype=float) * 0 + val

    return fn


def value_for(role, scope_val, dotted=0):
    """Object bound to the name in a scope."""
    if role in ("arg", "bqarg", "kwarg", "nested", "dotarg", "offarg"):
        return scope_val
    fn = marker_fn(scope_val)
    if dotted == 3:
        return types.SimpleNamespace(_fn=fn, fn=marker_fn(55.0))
    if dotted == 4:
        return types.SimpleNamespace(sub_1=types.SimpleNamespace(fn2=fn))
    if dotted == 1:
        return types.SimpleNamespace(fn=fn)
    if dotted == 2:
        return types.SimpleNamespace(sub=types.SimpleNamespace(fn=fn))
    return fn


def run_config(cfg, keep=None):
    """Build the nested callers and run the design; returns ('value', float) or ('raises', type name)."""
    from formulae import design_matrices

    role, name, k, subset, none_win = cfg["role"], cfg["name"], cfg["k"], cfg["subset"], cfg.get("none")
    dotted = cfg.get("dotted", 0)
    ident = name.isidentifier() and unicodedata.normalize("NFKC", name) == name  # (Python itself stores identifiers NFKC-normalised)
    if role == "arg":
        formula = f"y ~ 0 + fmc_probe({name})"
    elif role == "kwarg":
        formula = f"y ~ 0 + fmc_probe(v={name})"
    elif role == "nested":
        formula = f"y ~ 0 + fmc_probe(fmc_ident({name}))"
    elif role == "dotarg":
        formula = f"y ~ 0 + fmc_probe({name})"
    elif role == "offarg":
        formula = f"y ~ 0 + x + offset({name})"
    elif role == "bqarg":
        formula = f"y ~ 0 + fmc_probe(`{name}`)"
    else:
        formula = f"y ~ 0 + {name}{'.fn' if dotted == 1 else '.sub.fn' if dotted == 2 else '._fn' if dotted == 3 else '.sub_1.fn2' if dotted == 4 else ''}(x)"
    if cfg.get("pad"):  # the same term as the last one of a long right-hand side
        formula = formula.replace("y ~ 0 + ", "y ~ 0 + " + " + ".join(f"I(x * {i})" for i in range(2, 2 + cfg["pad"])) + " + ")
    order = [s for s in ("data", "local", "global", "extra") if s in subset]
    vals = {s: MARK[s] for s in order}
    if none_win:  # the first user scope that defines the name binds it to None
        first = next((s for s in order if s != "data"), None)
        if first:
            vals[first] = None
    cols = {}
    if "data" in subset:
        cols[name] = MARK["data"] if role != "callee" else [7.0] * N  # for callees a column of that name is a decoy
    df = data_frame(cols)
    extra = {"fmc_probe": fmc_probe, "fmc_ident": (lambda v: v)}
    if "extra" in subset:
        extra[name] = value_for(role, vals["extra"], dotted)
    # nested callers f3 -> f2 -> f1 -> f0 -> design_matrices(env=k); frame i provides locals_i / globals_i
    depth_total = 4
    holder = {}
    fns = []
    for i in range(depth_total):
        g = {"__builtins__": __builtins__, "design_matrices": design_matrices, "_holder": holder}
        if role == "bqarg" and name.strip() != name:  # the name without its outer spaces is defined everywhere: it must not be used
            g[name.strip()] = 66.0
        if unicodedata.normalize("NFKC", name) != name:  # so is the NFKC-normalised spelling of the name: another name
            g[unicodedata.normalize("NFKC", name)] = 67.0
        if role == "dotarg":  # an object whose attribute spells the rest of the name: a dotted *argument* is a plain key, not attribute access
            g[name.split(".")[0]] = types.SimpleNamespace(**{name.split(".")[1]: 77.0})
        lines = [f"def f{i}(nxt):"]
        target = i == k
        loc_def = ("local" in subset) if target else True
        glob_def = ("global" in subset) if target else True
        if glob_def:
            g[name] = value_for(role, vals["global"] if target else 90.0 + i, dotted)
        if loc_def and ident:
            g["_lv"] = value_for(role, vals["local"] if target else 80.0 + i, dotted)
            lines.append(f"    {name} = _lv")
        if i == 0:
            lines.append("    return design_matrices(_holder['formula'], _holder['data'], env=_holder['k'], extra_namespace=_holder['extra'])")
        else:
            lines.append("    return nxt[0](nxt[1:])")
        exec("\n".join(lines), g)
        fns.append(g[f"f{i}"])
    holder.update(formula=formula, data=df, k=k, extra=extra)
    try:
        dm = fns[3]([fns[2], fns[1], fns[0], None])  # f3 -> f2 -> f1 -> f0, no frames in between
    except Exception as e:
        return ("raises", type(e).__name__)
    if keep is not None:
        keep.append(dm)
    return read_column(dm.common.design_matrix)


def read_column(M):
    col = np.asarray(M, dtype=float)[:, -1]
    if np.allclose(col, col[0]):
        return ("value", float(col[0]))
    if abs(col.mean()) < 1e-9:
        return ("value", MARK["builtin"])  # the built-in scale() standardised x
    return ("value", float("nan"))


def expected(cfg):
    role, subset, name = cfg["role"], cfg["subset"], cfg["name"]
    order = ["data", "builtin", "local", "global", "extra"] if role in ("arg", "bqarg", "kwarg", "nested", "dotarg", "offarg") else ["builtin", "local", "global", "extra"]
    defined = set(subset)
    if name in ("scale", "Sum"):
        defined.add("builtin")
    if not name.isidentifier() or unicodedata.normalize("NFKC", name) != name:
        defined.discard("local")
    for s in order:
        if s in defined:
            if cfg.get("none") and s in ("local", "global", "extra") and s == next((t for t in ("local", "global", "extra") if t in defined and t in subset), None) and role in ("arg", "bqarg", "kwarg", "nested"):
                return ("value", -1.0)
            return ("value", MARK[s])
    return ("raises", None)


def configs():
    out = []
    scopes4 = ["data", "local", "global", "extra"]
    subsets = [list(c) for n in range(5) for c in itertools.combinations(scopes4, n)]
    for k in range(4):
        for name in ("wz", "scale", "Sum", "abs", "true", "NONE"):  # 'abs' is a Python builtin: it is NOT one of the five scopes; 'true' / 'NONE' are names, not literals
            for sub in subsets:
                out.append({"role": "arg", "name": name, "k": k, "subset": sub})
                if any(s in sub for s in ("local", "global", "extra")):
                    out.append({"role": "arg", "name": name, "k": k, "subset": sub, "none": True})
                if name != "Sum":  # calling the built-in encoding class on a column is not a valid term
                    out.append({"role": "callee", "name": name, "k": k, "subset": sub})
                out.append({"role": "kwarg", "name": name, "k": k, "subset": sub})
                if k in (0, 2):
                    out.append({"role": "nested", "name": name, "k": k, "subset": sub})
        for sub in subsets:  # the argument of offset(): a scalar of the caller, or a column
            if sub and "data" not in sub:  # (trained on a scalar of the caller; later frames may bring a column of that name)
                out.append({"role": "offarg", "name": "wz", "k": k, "subset": sub})
        for sub in subsets:  # models with a dozen terms and more
            for pad in (10, 14):
                out.append({"role": "arg", "name": "wz", "k": k, "subset": sub, "pad": pad})
                out.append({"role": "callee", "name": "wz", "k": k, "subset": sub, "pad": pad})
        sub3 = [list(c) for n in range(4) for c in itertools.combinations(["local", "global", "extra"], n)]
        for sub in sub3:
            out.append({"role": "callee", "name": "ns", "k": k, "subset": sub, "dotted": 1})
            out.append({"role": "callee", "name": "ns", "k": k, "subset": sub, "dotted": 2})
            out.append({"role": "callee", "name": "ns", "k": k, "subset": sub, "dotted": 3})  # ns._fn: the attribute starts with an underscore
            out.append({"role": "callee", "name": "ns", "k": k, "subset": sub, "dotted": 4})  # ns.sub_1.fn2
        subq = [list(c) for n in range(4) for c in itertools.combinations(["data", "global", "extra"], n)]
        for sub in subq:
            out.append({"role": "bqarg", "name": "my var", "k": k, "subset": sub})
            out.append({"role": "bqarg", "name": "wz ", "k": k, "subset": sub})  # the trailing space is part of the name
            out.append({"role": "bqarg", "name": " wz", "k": k, "subset": sub})
            out.append({"role": "dotarg", "name": "ob.w", "k": k, "subset": sub})
            out.append({"role": "dotarg", "name": "ob._w", "k": k, "subset": sub})
            out.append({"role": "dotarg", "name": "ob.1", "k": k, "subset": sub})
            for odd in ("\u00b5", "\u2126m", "\ufb01x", "\u00e9t\u00e9"):  # identifiers that are not NFKC-stable (micro sign, ohm sign, a ligature) and a stable non-ASCII one
                out.append({"role": "arg", "name": odd, "k": k, "subset": sub})
                out.append({"role": "bqarg", "name": odd, "k": k, "subset": sub})
                out.append({"role": "kwarg", "name": odd, "k": k, "subset": sub})
    return out


def units(tier, seed):
    cs = configs()
    u = [cs[i : i + 40] for i in range(0, len(cs), 40)]
    u.append([{"role": "envobj"}])
    return u


def expand(unit):
    return unit


def check_envobj(case, acc):
    from formulae import design_matrices
    from formulae.environment import Environment

    problems = []
    wz = 50.0  # noqa: F841  a caller local that must NOT be used when an Environment instance is given
    for sub in [list(c) for n in range(4) for c in itertools.combinations(["data", "envns", "extra"], n)]:
        cols = {"wz": 1.0} if "data" in sub else {}
        env = Environment([{"wz": 3.0}] if "envns" in sub else [{}])
        extra = {"fmc_probe": fmc_probe}
        if "extra" in sub:
            extra["wz"] = 5.0
        acc.calls += 1
        acc.traces += 1
        try:
            dm = design_matrices("y ~ 0 + fmc_probe(wz)", data_frame(cols), env=env, extra_namespace=extra)
            got = float(np.asarray(dm.common.design_matrix)[0, -1])
        except Exception as e:
            got = "raises"
        want = 1.0 if "data" in sub else 3.0 if "envns" in sub else 5.0 if "extra" in sub else "raises"
        if got != want:
            problems.append(f"Environment instance with scopes {sub}: got {got}, expected {want}")
    # one Environment object of the caller used for several designs with different extra namespaces
    shared = Environment([{"other": 9.0}])
    for step, (extra_wz, want) in enumerate([(5.0, 5.0), (None, "raises"), (6.0, 6.0), (None, "raises"), (5.0, 5.0)]):
        extra = {"fmc_probe": fmc_probe}
        if extra_wz is not None:
            extra["wz"] = extra_wz
        acc.calls += 1
        try:
            dm = design_matrices("y ~ 0 + fmc_probe(wz)", data_frame(), env=shared, extra_namespace=extra)
            got = float(np.asarray(dm.common.design_matrix)[0, -1])
        except Exception:
            got = "raises"
        if got != want:
            problems.append(f"one Environment object reused, call {step + 1} with extra_namespace wz={extra_wz}: got {got}, expected {want}")
            break
    # an array the name resolves to in the caller's scope is the caller's: its values are used, never overwritten
    wq = np.array([1.5, -2.0, 4.0, 0.25, 3.0, -1.0])
    wq0 = wq.copy()
    for fml in ("y ~ 0 + center(wq) + I(wq)", "y ~ 0 + I(wq) + scale(wq)", "y ~ 0 + standardize(wq):x + fmc_ident(wq)"):
        acc.calls += 1
        try:
            dm = design_matrices(fml, data_frame(), extra_namespace={"fmc_ident": (lambda v: v)})
            M = np.asarray(dm.common.design_matrix, dtype=float)
            ident_col = [j for j, n_ in enumerate(dm.common.terms) if n_ in ("I(wq)", "fmc_ident(wq)")][0]
            if not np.array_equal(M[:, ident_col], wq0):
                problems.append(f"{fml!r}: the column of the caller's array wq holds {M[:, ident_col].tolist()}, the array was {wq0.tolist()}")
            dm.common.evaluate_new_data(data_frame())
        except Exception as e:
            problems.append(f"{fml!r} raised {type(e).__name__}: {e}")
        if not np.array_equal(wq, wq0):
            problems.append(f"{fml!r}: the caller's array wq was overwritten ({wq.tolist()})")
            wq[:] = wq0
    for bad in ("0", 1.5, None):
        try:
            design_matrices("y ~ x", data_frame(), env=bad)
            problems.append(f"env={bad!r} was accepted")
        except (TypeError, ValueError):
            pass
    try:
        design_matrices("y ~ x", data_frame(), env=500)
        problems.append("env=500 (deeper than the stack) was accepted")
    except Exception:
        pass
    if problems:
        acc.case(case, "MISMATCH")
        acc.violation("environment-instance", "mismatch", case, "; ".join(problems[:3]))
    else:
        acc.case(case, "ok", nontrivial=True)


NEWVAL = 11.0


def new_data_sequences(case, acc):
    """The same order decides every later evaluation of new data: frames with and without a column of that name, in both
    orders, each order on a design of its own.  Returns a list of problem strings."""
    problems = []
    arglike = case["role"] in ("arg", "bqarg", "kwarg", "nested", "dotarg", "offarg")
    without = expected({**case, "subset": [s for s in case["subset"] if s != "data"]})
    for order in (("without", "with", "without"), ("with", "without", "with", "with")):
        keep = []
        if run_config(case, keep)[0] == "raises" or not keep:
            return problems
        dm = keep[0]
        for step, kind in enumerate(order):
            nd = data_frame({case["name"]: NEWVAL} if kind == "with" else None)
            want = ("value", NEWVAL) if (kind == "with" and arglike) else without
            acc.calls += 1
            try:
                got = read_column(dm.common.evaluate_new_data(nd).design_matrix)
            except Exception as e:
                got = ("raises", type(e).__name__)
            if got[0] != want[0] or (got[0] == "value" and got[1] != want[1]):
                problems.append(f"new data {kind} a column of that name (step {step + 1} of {'/'.join(order)}): got {got}, expected {want}")
                break
    return problems


def check_case(case, acc):
    if case["role"] == "envobj":
        return check_envobj(case, acc)
    acc.calls += 1
    acc.traces += 1
    got = run_config(case)
    want = expected(case)
    ok = got[0] == want[0] and (got[0] == "raises" or got[1] == want[1])
    if ok and got[0] == "value":
        later = new_data_sequences(case, acc)
        if later:
            acc.case(case, "MISMATCH-NEW-DATA", sample=False)
            acc.violation("first-match-wins-on-new-data", "winner", case, f"role={case['role']} name={case['name']!r} env={case['k']} defined in {case['subset']}: " + later[0])
            return
    if not ok:
        acc.case(case, "MISMATCH", sample=False)
        clause = "undefined-name-raises" if want[0] == "raises" else "first-match-wins"
        names = {v: k for k, v in MARK.items()}
        names[-1.0] = "None (first user scope)"
        def show(o):
            if o[0] == "raises":
                return f"raises {o[1] or ''}"
            return f"{names.get(o[1], 'a decoy / other value ' + str(o[1]))}"
        acc.violation(clause, "winner", case, f"role={case['role']} name={case['name']!r} env={case['k']} defined in {case['subset']}: resolved to {show(got)}, expected {show(want)}")
    else:
        acc.case(case, "ok", nontrivial=len(case["subset"]) + (case["name"] in ("scale", "Sum")) >= 2)


def classify(case, clause, sig, detail):
    return "-"


def snippet(case):
    return f"# fmc.checks.c11.run_config({case!r})"

"""C12 - call terms evaluate like the Python expression they spell (DESIGN.md 3, C12)."""
import ast
import itertools
import operator

import numpy as np
import pandas as pd

from fmc.refmodel import grammar as G

ID = "C12"
RULE = (
    "every argument expression with <= 2 binary operators over the full alphabet (11 operators, operands x z 2 0.5 .5 "
    "True, unary + - on any operand) and with 3 operators over a reduced alphabet, each rendered flat, fully "
    "parenthesised for every tree shape and with each single sub-expression parenthesised, is evaluated through "
    "I(...) by the real Call machinery and compared with Python's eval of the same text and with its term name; "
    "plus calls to a recording function (positional / keyword mixes, nested calls, string literals in both quote "
    "styles, True/False/None), {e} versus I(e), whitespace variants and literal-type distinctions.  A case is one "
    "token sequence with all its bracketings; non-trivial: at least two operators or a call argument list"
    '  Added: every operator with its operands swapped (bare, inside a larger argument, as keyword value) as '
    'distinct terms, also end to end; integer literals above 2^53; whitespace inside string literals; text '
    'columns that read like numbers / literals; later frames (two designs spelling one call on one frame '
    'object, the frame edited in place, assign() / copy() derivatives, a row subset); dotted callees rebound '
    'between designs. '
    "Later: names bound to None / 0 / '', 1500-row frames, caller arrays inside operators, a local binding "
    'shadowing a module-level one. '
)
ASSUMPTIONS = [
    "oracle is Python's own eval over the same names; scalar-only expressions are excluded (the library rejects them)",
    "the documented formula grammar (unary above **, left-associative **, comparisons as binary operators) is used only to recognise the recorded findings, never as the oracle",
]

N = 6
OPS_FULL = ["+", "-", "*", "/", "**", "==", "!=", "<", "<=", ">", ">="]
OPS_RED = ["+", "-", "*", "/", "**", "<", "=="]
OPERANDS_FULL = ["x", "z", "2", "0.5", ".5", "True"]
OPERANDS_RED = ["x", "z", "2"]
SIGNS = ["", "-", "+"]
PYOP = {"+": operator.add, "-": operator.sub, "*": operator.mul, "/": operator.truediv, "**": operator.pow, "==": operator.eq,
        "!=": operator.ne, "<": operator.lt, "<=": operator.le, ">": operator.gt, ">=": operator.ge}


def frame():
    return pd.DataFrame({"y": np.arange(N) * 1.0, "x": [1.5, 2.0, 0.5, 3.0, 2.0, 1.25], "z": [2.0, 1.0, 3.0, 0.5, 2.0, 1.5], "g": list("ababab"),
                         "code": ["1", "2", "10", "2", "1", "10"], "flag": ["True", "False", "None", "True", "nan", "1e3"]})  # text that reads like numbers / literals


def rec(a, b=1, k=2, *more):
    """Deterministic recording function: the value reveals every argument."""
    def num(v):
        if v is None:
            return 7.0
        if isinstance(v, str):
            return float(len(v)) + (0.25 if v[:1].isupper() else 0.0)
        if isinstance(v, bool):
            return 3.0 if v else 4.0
        return v
    out = num(a) * 1.0 + num(b) * 10.0 + num(k) * 100.0
    for i, m in enumerate(more):
        out = out + num(m) * 1000.0 * (i + 1)
    return out if isinstance(out, (pd.Series, np.ndarray)) else np.full(N, float(out))


kk = 7.0  # module-level bindings that a function-local binding of the same name must shadow (check_e2e)


def rec2(a, b=0):
    return a * -1.0 + b


def namespace(df):
    return {"rec": rec, "np": np, "I": (lambda v: v), "x": df["x"], "z": df["z"], "True": True, "code": df["code"], "flag": df["flag"], "nn": None, "zero": 0, "empty": ""}


OPS_Q2 = ["+", "-", "*", "/", "**", "==", "<", "<=", ">"]
OPD_Q2 = ["x", "z", "2", "0.5", "True"]
OPS_Q3 = ["+", "-", "*", "/", "**", "<"]
SPACES = {
    # name: (operators, operands, unary signs tried on one operand at a time, with single-sub-expression parentheses?)
    "k1": (OPS_FULL, OPERANDS_FULL, ("-", "+"), True),
    "q2": (OPS_Q2, OPD_Q2, ("-",), True),
    "q3": (OPS_Q3, OPERANDS_RED, ("-",), False),
    "t2": (OPS_FULL, OPERANDS_FULL, ("-", "+"), True),
    "t3": (OPS_FULL, OPERANDS_RED, ("-",), True),
}


def units(tier, seed):
    u = []
    plan = [("k1", 1), ("q2", 2), ("q3", 3)] if tier == "quick" else [("k1", 1), ("t2", 2), ("t3", 3)]
    for sp, k in plan:
        ops, opd, _, _ = SPACES[sp]
        for a in opd:
            for o in ops:
                if k >= 3:
                    for b in opd:
                        u.append(["seq", sp, [a, o, b], k])
                else:
                    u.append(["seq", sp, [a, o], k])
    u.append(["calls"])
    u.append(["e2e"])
    return u


def expand(unit):
    if unit[0] == "calls":
        for c in CALLS:
            yield {"k": "call", "text": c}
        for a, b in DISTINCT:
            yield {"k": "distinct", "a": a, "b": b}
        return
    if unit[0] == "e2e":
        yield {"k": "e2e"}
        return
    sp, pre, k = unit[1], unit[2], unit[3]
    ops, opd, signs, sub = SPACES[sp]
    need = 2 * k + 1 - len(pre)
    slots = [opd if (len(pre) + i) % 2 == 0 else ops for i in range(need)]
    for rest in itertools.product(*slots):
        toks = list(pre) + list(rest)
        operands = toks[0::2]
        if not any(o in ("x", "z") for o in operands):
            continue
        decos = [tuple([""] * len(operands))]
        for i in range(len(operands)):
            for sg in signs:
                d = [""] * len(operands)
                d[i] = sg
                decos.append(tuple(d))
        if k == 1:
            decos += [("-", "-"), ("- -", ""), ("", "- -")]
        for d in decos:
            yield {"k": "seq", "toks": toks, "signs": list(d), "sub": sub}


def shapes(n):
    """All full bracketings of n operands as nested index tuples."""
    if n == 1:
        return [0]
    out = []

    def build(lo, hi):
        if lo == hi:
            return [lo]
        res = []
        for m in range(lo, hi):
            for l in build(lo, m):
                for r in build(m + 1, hi):
                    res.append((l, r))
        return res

    return build(0, n - 1)


def render(shape, operands, ops, top=True):
    if isinstance(shape, int):
        return operands[shape], shape, shape
    lt, llo, lhi = render(shape[0], operands, ops, False)
    rt, rlo, rhi = render(shape[1], operands, ops, False)
    s = f"{lt} {ops[lhi]} {rt}"
    if not top:
        s = "(" + s + ")"
    return s, llo, rhi


def bracketings(toks, signs, sub=True):
    operands = [(s + " " if " " in s else s) + t if s else t for s, t in zip(signs, toks[0::2])]
    operands = [o.replace("- -", "--") if False else o for o in operands]
    ops = toks[1::2]
    texts = [" ".join(x for pair in zip(operands, ops + [""]) for x in pair if x)]
    n = len(operands)
    for sh in shapes(n):
        texts.append(render(sh, operands, ops)[0])
    # one parenthesised sub-expression (contiguous run of >= 2 operands, not the whole)
    for lo in range(n if sub else 0):
        for hi in range(lo + 1, n):
            if lo == 0 and hi == n - 1:
                continue
            parts = []
            for i in range(n):
                piece = operands[i]
                if i == lo:
                    piece = "(" + piece
                if i == hi:
                    piece = piece + ")"
                parts.append(piece)
                if i < n - 1:
                    parts.append(ops[i])
            texts.append(" ".join(parts))
    # a parenthesised single operand
    if sub:
        texts.append(" ".join(x for pair in zip(["(" + operands[0] + ")"] + operands[1:], ops + [""]) for x in pair if x))
    return list(dict.fromkeys(texts))


# ---------------------------------------------------------------------------------------------
# the three evaluations


def py_eval(text, ns):
    try:
        return ("value", eval(text, {"__builtins__": {}}, ns))
    except Exception as e:
        return ("raises", type(e).__name__)


def doc_eval(text, ns):
    """Value under the documented *formula* grammar (unary above **, everything left-associative)."""
    def ev(n):
        k = n[0]
        if k == "atom":
            t = n[1]
            if t in ns:
                return ns[t]
            if t in ("True", "False", "None"):
                return {"True": True, "False": False, "None": None}[t]
            if t[0] in "'\"":
                return t[1:-1]
            return float(t) if "." in t else int(t)
        if k == "un":
            v = ev(n[2])
            return -v if n[1] == "-" else +v
        if k == "grp":
            return ev(n[1])
        if k == "bin":
            return PYOP[n[1]](ev(n[2]), ev(n[3]))
        if k == "call":
            f = ns[n[1][1]]
            args, kw = [], {}
            for a in n[2]:
                if a[0] == "bin" and a[1] == "=":
                    kw[a[2][1]] = ev(a[3])
                else:
                    args.append(ev(a))
            return f(*args, **kw)
        raise ValueError(k)
    try:
        return ("value", ev(G.parse(G.tokenize(text))))
    except Exception as e:
        return ("raises", type(e).__name__)


def lib_eval(calltext, df, ns):
    from formulae import model_description
    from formulae.environment import Environment
    from formulae.terms import Term

    md = model_description("y ~ " + calltext)
    terms = [t for t in md.common_terms if isinstance(t, Term)]
    comp = terms[0].components[0]
    comp.set_type(df, Environment([{k: v for k, v in ns.items() if k not in ("x", "z", "True")}]))
    return comp.name, comp._intermediate_data, [t.name for t in terms]


def same(a, b):
    try:
        A, B = np.asarray(a), np.asarray(b)
        if A.shape != B.shape:
            if A.shape == () or B.shape == ():
                A, B = np.broadcast_arrays(A, B)
            else:
                return False
        if A.dtype == bool or B.dtype == bool:
            if A.dtype != B.dtype:
                return False
            return bool(np.array_equal(A, B))
        return bool(np.allclose(A.astype(float), B.astype(float), rtol=1e-12, atol=0, equal_nan=True))
    except Exception:
        return False


def normalise(text):
    """Source text of a call normalised to single spaces (quote style kept, numbers in canonical form)."""
    toks = G.tokenize(text)
    out = []
    prev = None
    depth_call = []
    for i, (k, lx, lit) in enumerate(toks):
        if k == "NUM":
            lx = repr(lit)
        unary = k in ("+", "-") and (prev is None or prev in ("(", ",", "=", "{") or prev in G.BIN_PREC or prev == "un")
        if unary:
            out.append(lx)
            prev = "un"
            continue
        if k in G.BIN_PREC and k != "=":
            out.append(" " + lx + " ")
        elif k == ",":
            out.append(", ")
        else:
            out.append(lx)
        prev = k
    return "".join(out)


def strip_parens(text):
    """Remove grouping parentheses (not the call's own)."""
    toks = G.tokenize(text)
    keep = []
    stack = []
    for i, (k, lx, lit) in enumerate(toks):
        if k == "(":
            is_call = i > 0 and toks[i - 1][0] in ("ID",)
            stack.append(is_call)
            if not is_call:
                continue
        elif k == ")":
            if not stack.pop():
                continue
        keep.append(lx)
    return " ".join(keep)


def py_class(text):
    """Structural class from Python's own AST: where the formula grammar is known to differ from Python."""
    try:
        tree = ast.parse(text, mode="eval")
    except SyntaxError:
        return "not-python"
    cls = set()
    for n in ast.walk(tree):
        if isinstance(n, ast.UnaryOp) and isinstance(n.op, (ast.USub, ast.UAdd)) and isinstance(n.operand, ast.BinOp) and isinstance(n.operand.op, ast.Pow):
            cls.add("unary-sign-base-of-pow")
        if isinstance(n, ast.BinOp) and isinstance(n.op, ast.Pow) and isinstance(n.right, ast.BinOp) and isinstance(n.right.op, ast.Pow):
            cls.add("pow-chain")
        if isinstance(n, ast.Compare) and len(n.ops) > 1:
            cls.add("chained-comparison")
    return "+".join(sorted(cls)) or "-"


def check_text(expr, df, ns, acc, problems, names):
    call = f"I({expr})"
    acc.calls += 1
    acc.traces += 1
    py = py_eval(expr, ns)
    try:
        name, val, _ = lib_eval(call, df, ns)
        lib = ("value", val)
    except Exception as e:
        lib = ("raises", type(e).__name__)
        name = None
    if lib[0] == "raises":
        acc.table("rejected_by_library", lib[1])  # rejection is allowed; silent mis-evaluation is not
        return
    ok = py[0] == "value" and same(py[1], lib[1])
    if not ok:
        doc = doc_eval(expr, ns)
        if doc[0] == "value" and same(doc[1], lib[1]):
            sig = "formula-grammar-differs-from-python"
        else:
            sig = "value-other"
        pyd = "raises " + py[1] if py[0] == "raises" else np.asarray(py[1]).reshape(-1)[:3].tolist()
        problems.append(("value", sig, f"{call}: value {np.asarray(lib[1]).reshape(-1)[:3].tolist()} but Python gives {pyd}"))
    want = normalise(call)
    if name != want:
        sig = "parens-dropped" if name == normalise(f"I({strip_parens(expr)})") else "name-other"
        problems.append(("name", sig, f"{call}: term name {name!r}, expected {want!r}"))
    if lib[0] == "value":
        names.setdefault(name, []).append((expr, lib[1]))


def check_seq(case, acc):
    df = frame()
    ns = namespace(df)
    problems, names = [], {}
    texts = bracketings(case["toks"], case["signs"], case.get("sub", True))
    for t in texts:
        check_text(t, df, ns, acc, problems, names)
    # different values => different names
    for name, lst in names.items():
        for (e1, v1), (e2, v2) in itertools.combinations(lst, 2):
            if not same(v1, v2):
                sig = "parens-dropped" if ("(" in e1 or "(" in e2) else "name-other"
                problems.append(("distinct-names", sig, f"I({e1}) and I({e2}) have different values but the same term name {name!r}"))
                break
    # whitespace variants and {e} == I(e) for the flat text (all one-operator sequences, undecorated longer ones)
    flat = texts[0]
    if len(case["toks"]) > 3 and any(case["signs"]):
        acc.bulk(len(texts) - 1, "bracketings")
        return problems
    try:
        n0, v0, _ = lib_eval(f"I({flat})", df, ns)
        for var in (f"I( {flat} )", "I(" + flat.replace(" ", "  ") + ")", "I(" + squeeze(flat) + ")", "{" + flat + "}", "{ " + flat + " }"):
            acc.calls += 1
            n1, v1, _ = lib_eval(var, df, ns)
            if n1 != n0 or not same(v0, v1):
                problems.append(("textual-variants", "mismatch", f"{var!r} is not the same term as I({flat}) ({n1!r} vs {n0!r})"))
    except Exception:
        pass
    acc.bulk(len(texts) - 1, "bracketings")
    return problems


def squeeze(text):
    """Remove the spaces whose removal keeps the token list."""
    toks = [t[1] for t in G.tokenize(text)]
    out = toks[0]
    for t in toks[1:]:
        cand = out + t
        try:
            ok = [x[1] for x in G.tokenize(cand)] == [x[1] for x in G.tokenize(out)] + [t]
        except G.Reject:
            ok = False
        out = cand if ok else out + " " + t
    return out


CALLS = [
    "rec(x)", "rec(x, 2)", "rec(x, 2, 3)", "rec(x, k=3)", "rec(x, b=z)", "rec(x, k=2, b=z)", "rec(b=2, a=x)", "rec(x, 2, k=z * 2)", "rec(a=x, b=z + 1, k=-2)",
    "rec(x, 'ab')", 'rec(x, "ab")', "rec(x, 'Ab', k=\"abc\")", "rec(x, True)", "rec(x, False)", "rec(x, None)", "rec(x, k=None)", "rec(x, b=True, k=False)",
    "rec(rec(x, 2), z)", "rec(x, rec(z, 3), k=rec(x))", "np.log(rec(x) + 1)", "rec(np.log(x), np.exp(z))", "rec(x + z * 2, z / x)", "rec((x + z) * 2, k=(z - x) / 2)",
    "rec(x, 1, True)", "rec(x, 2.0, 2)", "rec(x, 0, k=False)", "rec(x, True, 1)", "rec(x, 1.0, 1, 1, True)", "rec(x, 'a', \"a\")", "rec(rec(x, 1), True)",
    "rec(x, 'a  b')", "rec(x, 'a\tb ')", "rec(x, ' a ', k=\"  \")", "rec(x, 'A   b', 'a b')",
    "np.asarray(x)", "rec(np.asarray(x), 2)", "I(np.asarray(x) * z)",
    "rec(x, 9007199254740993)", "rec(x, k=18014398509481985)", "I(x + 9007199254740993 - 9007199254740992)", "rec(x, 0.1234567890123456789)", "rec(x, 100000000000000000000)",
    "rec(x, 2, 3, 4, 5)", "rec(x, 0.5, .5)", "rec(-x, +z)", "rec(x, k=z ** 2)", "rec(x, -2)", "rec(x, - 2)", "np.power(x, 2)", "I(np.maximum(x, z) - np.minimum(x, z))",
    "rec(code == '2')", "rec(code + code == '22')", "rec(code == '10', 2)", "rec(code + 'a' == '10a')", "rec(flag == 'True', flag == 'None')", "rec(flag + code == 'nan1')", "rec(code != '1', k=(code == '1'))",
    "rec(x, nn)", "rec(x, k=nn)", "rec(x, zero, k=empty)", "rec(x, rec(z, nn), k=zero)",  # names bound to None / 0 / '' are bound
    "rec(x > 1, z <= 2)", "rec(x == 2.0)", "rec(x != z, x < z)", "rec(x, 'a b')", "rec(x, 'a,b)')", "rec( x ,k = 3 )", "rec(x,k=3)",
]
DISTINCT = [("rec(x, 1)", "rec(x, True)"), ("rec(x, 0)", "rec(x, False)"), ("rec(x, 2)", "rec(x, 2.0)"), ("rec(x, 'a')", 'rec(x, "a")'), ("rec(x, k=1)", "rec(x, k=2)"),
            ("rec(x, b=1)", "rec(x, k=1)"), ("rec(x, 1, 2)", "rec(x, 2, 1)"), ("rec(x, k=1, b=2)", "rec(x, b=2, k=1)"), ("rec(x)", "rec(z)"), ("rec(x, None)", "rec(x, 'None')"),
            ("I(x - (z - 2))", "I(x - z - 2)"), ("I(x / (z * 2))", "I(x / z * 2)"), ("I((x + z) * 2)", "I(x + z * 2)"), ("rec(x,k=3)", "rec(x, k = 3)"), ("rec(x, 1)", "rec(x,  1)")]


# the same operator with its operands the other way round, bare and inside a larger argument
for _op in OPS_FULL:
    for _a, _b in (("x", "z"), ("x", "2"), ("z", "0.5")):
        DISTINCT.append((f"I({_a} {_op} {_b})", f"I({_b} {_op} {_a})"))
        DISTINCT.append((f"rec({_a} {_op} {_b}, k=1)", f"rec({_b} {_op} {_a}, k=1)"))
        DISTINCT.append((f"I(({_a} {_op} {_b}) * 2)", f"I(({_b} {_op} {_a}) * 2)"))
        DISTINCT.append((f"rec(x, k=({_a} {_op} {_b}))", f"rec(x, k=({_b} {_op} {_a}))"))


def check_call(case, acc):
    df = frame()
    ns = namespace(df)
    problems = []
    text = case["text"]
    acc.calls += 1
    acc.traces += 1
    py = py_eval(text, ns)
    try:
        name, val, _ = lib_eval(text, df, ns)
    except Exception as e:
        problems.append(("value", "rejected", f"{text}: raised {type(e).__name__}: {e}"))
        return problems
    if py[0] != "value" or not same(py[1], val):
        problems.append(("value", "value-other", f"{text}: value {np.asarray(val).reshape(-1)[:3].tolist()} but Python gives {py}"))
    want = normalise(text)
    if name != want:
        sig = "parens-dropped" if name == normalise(strip_parens(text)) else "name-other"
        problems.append(("name", sig, f"{text}: term name {name!r}, expected {want!r}"))
    return problems


def check_distinct(case, acc):
    """Two call texts are the same term iff they normalise to the same text."""
    from formulae import model_description
    from formulae.terms import Term

    a, b = case["a"], case["b"]
    problems = []
    acc.calls += 1
    try:
        md = model_description(f"y ~ {a} + {b}")
        n = len([t for t in md.common_terms if isinstance(t, Term)])
    except Exception as e:
        return [("distinct-names", "rejected", f"'{a} + {b}' raised {type(e).__name__}")]
    same_text = normalise(a) == normalise(b)
    if same_text and n != 1:
        problems.append(("textual-variants", "mismatch", f"{a!r} and {b!r} are textual variants of one call but gave {n} terms"))
    if not same_text and n != 2:
        sig = "parens-dropped" if "(" in a[2:-1] and a.startswith("I(") else "collapsed"
        problems.append(("distinct-names", sig, f"{a!r} and {b!r} are different calls but were merged into one term"))
    if not same_text and not problems:  # and in a design: two columns, each with the value of its own call
        from formulae import design_matrices

        df = frame()
        ns = namespace(df)
        acc.calls += 1
        try:
            dm = design_matrices(f"y ~ 0 + {a} + {b}", df, extra_namespace={"rec": rec})
            M = np.asarray(dm.common.design_matrix, dtype=float)
            pa, pb = py_eval(a, ns), py_eval(b, ns)
            if M.shape[1] != 2:
                problems.append(("distinct-names", "collapsed", f"design of {a!r} + {b!r} has {M.shape[1]} column(s)"))
            elif pa[0] == "value" and pb[0] == "value" and not (same(np.asarray(pa[1], dtype=float), M[:, 0]) and same(np.asarray(pb[1], dtype=float), M[:, 1])):
                problems.append(("value", "value-other", f"design of {a!r} + {b!r}: a column is not the value of its own call"))
        except Exception:
            pass  # what a design accepts is check_e2e's business
    return problems


def check_e2e(case, acc):
    """The same through design_matrices: value, name, {e} == I(e)."""
    import types
    from formulae import design_matrices

    df = frame()
    ns = namespace(df)
    problems = []
    # the same dotted text bound to other objects in later evaluations
    for step, (k1, k2) in enumerate([(2.0, 100.0), (3.0, -1.0), (2.0, 100.0)]):
        tools = types.SimpleNamespace(shift=lambda v, k1=k1: v * k1, sub=types.SimpleNamespace(fn=lambda v, k2=k2: v + k2))
        for text, want in (("tools.shift(x)", df["x"] * k1), ("tools.sub.fn(x)", df["x"] + k2), ("np.log(tools.shift(x))", np.log(df["x"] * k1))):
            acc.calls += 1
            try:
                dm = design_matrices(f"y ~ 0 + {text}", df, extra_namespace={"tools": tools})
                if not same(np.asarray(want, dtype=float), np.asarray(dm.common.design_matrix)[:, 0]):
                    problems.append(("value", "value-other", f"evaluation {step + 1} of '{text}': not the value of the function bound to that name now"))
            except Exception as ex:
                problems.append(("value", "rejected", f"design_matrices('y ~ 0 + {text}') raised {type(ex).__name__}: {ex}"))
    # later frames: several designs that spell the same call evaluate one frame object; the frame is then edited in place,
    # derived frames (assign / copy) are evaluated too - every value is the call on the frame as passed, with the functions
    # the design was built with
    kept = []

    def make(k1, k2):  # a caller of its own per design: the captured environment is the caller's live namespace
        tools = types.SimpleNamespace(shift=lambda v: v * k1, sub=types.SimpleNamespace(fn=lambda v: v + k2))
        return design_matrices("y ~ 0 + tools.shift(x) + tools.sub.fn(x) + rec(x, z) + I(x * z - 2)", df, extra_namespace={"tools": tools, "rec": rec})

    for k1, k2 in [(2.0, 100.0), (3.0, -1.0)]:
        try:
            kept.append((k1, k2, make(k1, k2)))
        except Exception as ex:
            problems.append(("value", "rejected", f"design with tools.shift / tools.sub.fn / rec / I raised {type(ex).__name__}: {ex}"))
    new = frame().iloc[::-1].reset_index(drop=True)
    new["x"] = new["x"] + 0.5

    def wanted(fr, k1, k2):
        xs, zs = fr["x"].to_numpy(dtype=float), fr["z"].to_numpy(dtype=float)
        return np.column_stack([xs * k1, xs + k2, np.asarray(rec(fr["x"], fr["z"]), dtype=float), xs * zs - 2])

    frames_seq = [("a new frame", new)]
    for step in range(6):
        what, fr = frames_seq[-1] if step == 0 else (None, None)
        if step == 1:
            new["x"] = new["x"] * 2 + 1
            what, fr = "the same frame object edited in place", new
        elif step == 2:
            what, fr = "a frame derived with assign()", new.assign(z=new["z"] + 3)
        elif step == 3:
            what, fr = "a copy() with another x", new.copy()
            fr["x"] = fr["x"] - 0.25
        elif step == 4:
            new.loc[0, "z"] = 9.0
            what, fr = "the same frame object after a cell was set", new
        elif step == 5:
            what, fr = "a row subset", new.iloc[[4, 1, 1]]
        for k1, k2, dmk in kept:
            acc.calls += 1
            try:
                got = np.asarray(dmk.common.evaluate_new_data(fr).design_matrix, dtype=float)
            except Exception as ex:
                problems.append(("value", "rejected", f"evaluate_new_data on {what} raised {type(ex).__name__}: {ex}"))
                continue
            if got.shape != (len(fr), 4) or not same(wanted(fr, k1, k2), got):
                problems.append(("value", "value-other", f"evaluate_new_data on {what} (step {step + 1}, design built with k1={k1}): a column is not the value of its call on that frame"))
    # a name bound in the calling function and, to something else, at module level: the function's binding is the nearer one
    kk = 3.0  # noqa: F841

    def rec2(a, b=0):  # noqa: F841  (shadows the module-level rec2)
        return a * 1.0 + b * 1000.0

    for text, want in (("I(x * kk)", df["x"].to_numpy() * 3.0), ("rec2(x, b=kk)", df["x"].to_numpy() + 3000.0), ("I(rec2(x) + kk > 4)", (df["x"].to_numpy() + 3.0 > 4).astype(float))):
        acc.calls += 1
        try:
            dml = design_matrices(f"y ~ 0 + {text}", df)
            if not same(want, np.asarray(dml.common.design_matrix, dtype=float)[:, 0]):
                problems.append(("value", "value-other", f"'{text}' called from a function that binds kk / rec2 locally (module level binds them to other objects): not the value with the local bindings"))
        except Exception as ex:
            problems.append(("value", "rejected", f"'{text}' raised {type(ex).__name__}: {ex}"))
    # arrays of the caller inside operators: used, never overwritten (also through parentheses and pass-through calls)
    warr = np.array([0.5, 1.5, -2.0, 4.0, 3.0, 0.25])
    w0 = warr.copy()
    ns_arr = {"rec": rec, "warr": warr, "ident": (lambda v: v)}
    for text, want in (("I((warr) * 2 + x)", w0 * 2 + df["x"].to_numpy()), ("I(I(warr) - 1)", w0 - 1), ("I(ident(warr) / 2 + (warr))", w0 / 2 + w0), ("rec((warr) + 1, k=(warr) * 3)", (w0 + 1) + 10.0 + 100 * (w0 * 3)),
                       ("I(np.asarray(warr) - (x))", w0 - df["x"].to_numpy()), ("I(-(warr) + warr * 1)", -w0 + w0)):
        for rep in range(2):
            acc.calls += 1
            try:
                dmw = design_matrices(f"y ~ 0 + {text}", df, extra_namespace=ns_arr)
                got = np.asarray(dmw.common.design_matrix, dtype=float)[:, 0]
                got2 = np.asarray(dmw.common.evaluate_new_data(df).design_matrix, dtype=float)[:, 0]
                if not (same(want, got) and same(want, got2)):
                    problems.append(("value", "value-other", f"'{text}' with the caller's array warr (evaluation {rep + 1}): column is not Python's value"))
            except Exception as ex:
                problems.append(("value", "rejected", f"'{text}' raised {type(ex).__name__}: {ex}"))
            if not np.array_equal(warr, w0):
                problems.append(("value", "value-other", f"'{text}': the caller's array warr was overwritten: {warr.tolist()}"))
                warr[:] = w0
    # more than a thousand rows: the value of a call is the value of its text on the whole columns (also when it holds a
    # transform that learns parameters from the data)
    big = pd.concat([df] * 250, ignore_index=True)
    big["x"] = big["x"] + np.arange(len(big)) * 0.01
    big["z"] = big["z"] + np.sin(np.arange(len(big)))
    bx, bz = big["x"].to_numpy(), big["z"].to_numpy()
    for text, want in (("center(x)", bx - bx.mean()), ("scale(x + z)", ((bx + bz) - (bx + bz).mean()) / (bx + bz).std()), ("I(rec(x) / 2 + center(z))", (bx + 210.0) / 2 + bz - bz.mean()),
                       ("rec(center(x), 2)", (bx - bx.mean()) + 220.0), ("np.log(x) + 0 * z", np.log(bx)), ("standardize(np.log(x))", (np.log(bx) - np.log(bx).mean()) / np.log(bx).std())):
        acc.calls += 1
        try:
            dmb = design_matrices(f"y ~ 0 + {text if '+ 0 *' not in text else 'I(' + text + ')'}", big, extra_namespace={"rec": rec})
            got = np.asarray(dmb.common.design_matrix, dtype=float)[:, 0]
            if got.shape != want.shape or not np.allclose(got, want, rtol=1e-9, atol=1e-9):
                problems.append(("value", "value-other", f"'{text}' on 1500 rows: column is not the value of the text on the whole columns (max deviation {np.abs(got - want).max():.3g})"))
        except Exception as ex:
            problems.append(("value", "rejected", f"'{text}' on 1500 rows raised {type(ex).__name__}: {ex}"))
    for e in ["x + z", "x * z - 2", "x / z + 0.5", "x ** 2", "(x + z) ** 2", "x - (z - 2)", "-x + z", "x > z", "x * (z + 2) / (x + 1)", "2 ** x", "x <= 2"]:
        py = py_eval(e, ns)[1]
        for call in (f"I({e})", "{" + e + "}"):
            acc.calls += 1
            acc.traces += 1
            try:
                dm = design_matrices(f"y ~ 0 + {call}", df, extra_namespace={"rec": rec})
            except Exception as ex:
                problems.append(("value", "rejected", f"design_matrices('y ~ 0 + {call}') raised {type(ex).__name__}: {ex}"))
                continue
            col = np.asarray(dm.common.design_matrix)[:, 0]
            names = list(dm.common.terms)
            if not same(np.asarray(py, dtype=float), col.astype(float)):
                problems.append(("value", "value-other", f"design_matrices('y ~ 0 + {call}'): column is not Python's value"))
            if not names[0].startswith("I("):
                problems.append(("name", "name-other", f"design_matrices('y ~ 0 + {call}'): term name {names[0]!r}"))
    for c in CALLS:
        acc.calls += 1
        try:
            dm = design_matrices(f"y ~ 0 + {c}", df, extra_namespace={"rec": rec, "nn": None, "zero": 0, "empty": ""})
        except Exception as ex:
            problems.append(("value", "rejected", f"design_matrices('y ~ 0 + {c}') raised {type(ex).__name__}: {ex}"))
            continue
        if not same(np.asarray(py_eval(c, ns)[1], dtype=float), np.asarray(dm.common.design_matrix)[:, 0]):
            problems.append(("value", "value-other", f"design_matrices('y ~ 0 + {c}'): column is not Python's value"))
    return problems


def check_case(case, acc):
    k = case["k"]
    problems = {"seq": check_seq, "call": check_call, "distinct": check_distinct, "e2e": check_e2e}[k](case, acc)
    nt = k != "seq" or len(case["toks"]) >= 5
    if problems:
        acc.case(case, "MISMATCH", nontrivial=nt, sample=False)
        seen = set()
        for clause, sig, msg in problems:
            if (clause, sig) not in seen:
                seen.add((clause, sig))
                acc.violation(clause + ":" + sig, sig, case, msg)
    else:
        acc.case(case, "ok", nontrivial=nt)


def classify(case, clause, sig, detail):
    """Where Python's own AST says the text uses a construct on which the formula grammar is known to differ."""
    if case.get("k") == "seq":
        cls = set()
        for t in bracketings(case["toks"], case["signs"], case.get("sub", True)):
            c = py_class(t)
            if c != "-":
                cls.update(c.split("+"))
        return "+".join(sorted(cls)) or "-"
    return "-"


def snippet(case):
    return f"# fmc.checks.c12 case {case!r}"

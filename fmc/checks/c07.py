"""C07 - designs are isolated: no state leaks across evaluations, designs or calls (explicit-state exploration of
operation histories; DESIGN.md 3, C07)."""
import hashlib
import itertools
import json
import multiprocessing as mp
import os
import subprocess
import sys
import warnings

import numpy as np
import pandas as pd

ID = "C07"
WARMUP = False  # this check explores histories itself, each from the pristine state
RULE = (
    "every history of <= 3 (<= 4 thorough) events over build(spec 0..5) / evaluate-common(slot, frame 0..3) / "
    "evaluate-group(slot, frame 0..3) / set-config(3 modes) / model_description(spec) is executed on the real code "
    "from a clean forked process; after every event (O1) its observation must equal the observation of the same "
    "event executed alone in a fresh process-state, (O2) the observable snapshot of every existing design and every "
    "earlier result, the caller's frames and the caller's namespace must be unchanged; (O3) the reference table "
    "must be identical in fresh interpreters under other hash seeds.  States are histories (no dedup: fully "
    "stateless); non-trivial: the history contains at least two events that touch designs"
    '  Added: specs with a zero-mean column, a caller-held encoding object, a caller array, one caller-held '
    'Environment with two extra namespaces, a stateful helper term, a degenerate poly; events '
    'edit-frame-in-place and refused config assignments; every result is also observed as str / repr / '
    'as_dataframe. '
    'Later: a caller array with unsorted knots, two 1200-row frames alike at both ends, helper terms with two '
    'categorical factors, a refused evaluation as a deviation, the data held by each term in the snapshot. '
)
ASSUMPTIONS = [
    "fresh process-state = a process forked from the pristine parent (formulae imported, nothing executed); plus real fresh interpreters for the reference table under PYTHONHASHSEED 1 and 2",
    "purity is not demanded: only observables (matrices, slices, labels, levels, printed form, results) are compared",
]

MODES = ["error", "warning", "silent"]
NFR = 4


def frame_a():
    return pd.DataFrame({
        "y": [0.5, 1.5, 0.25, 2.0, 1.0, 0.75, 3.0, 2.5, 1.25, 0.1, 0.9, 1.7],
        "x": [1.0, 2.0, 4.0, 3.0, 5.5, 0.5, 2.5, 6.0, 1.5, 3.5, 4.5, 2.25],
        "z": [3.0, 1.0, 2.0, 5.0, 4.0, 7.0, 6.0, 0.5, np.nan, 1.5, 3.5, 4.5],
        "f": ["b", "a", "c", "a", "b", "c", "c", "a", "b", "b", "a", "c"],
        "g": ["g1", "g2", "g1", "g3", "g2", "g3", "g1", "g2", "g3", "g1", "g2", "g3"],
        "xc": [-3.0, -2.0, -1.0, 0.0, 1.0, 2.0, 3.0, -1.5, 1.5, -0.5, 0.5, 0.0],  # mean exactly zero
        "d": [0.0, 1.0] * 6,  # a two-point dose: fewer distinct points than poly(d, 2) needs
    })


def frame_b():
    return pd.DataFrame({
        "y": [10.0, 11.0, 9.5, 12.0, 10.5, 9.0, 11.5, 12.5, 10.25],
        "x": [101.0, 105.0, 98.0, 110.0, 95.0, 102.5, 99.0, 107.0, 103.0],
        "z": [0.1, 0.5, 0.3, 0.2, 0.9, np.nan, 0.4, 0.8, 0.6],
        "f": ["d", "a", "b", "d", "a", "b", "b", "d", "a"],
        "g": ["g2", "g4", "g2", "g4", "g5", "g5", "g2", "g4", "g5"],
        "xc": [4.0, -4.0, 2.0, -2.0, 1.0, -1.0, 0.0, 0.5, -0.5],
        "d": [2.0, 5.0, 2.0, 5.0, 5.0, 2.0, 2.0, 5.0, 2.0],
    })


SPECS = [
    ("y ~ scale(x) + f", "a"),
    ("y ~ scale(x) + f", "a"),
    ("y ~ scale(x) + f", "b"),
    ("y ~ scale(x) + poly(z, 2) + (center(x)|g)", "a"),
    ("y ~ bs(x, df=4) + poly(z, 2) + C(f, Sum) + (f|g)", "b"),
    ("y ~ 0 + z + scale(x):f + (scale(x)|g)", "a"),
    ("y ~ center(xc) + scale(xc):f + (center(xc)|g)", "a"),
    ("y ~ f + scale(x) + (0 + center(x)|g)", "a"),  # same term names as specs 0 and 3, at other column offsets
    ("y ~ x + C(g, enc)", "a"),  # 'enc' is an encoding object the caller keeps in its namespace
    ("y ~ x + C(g, enc)", "b"),
    ("y ~ scale(wv) + x", "a"),  # 'wv' is a float array of the caller, not a column
    ("y ~ fn(x) + f", "a", "envA"),  # built through one caller-held Environment object with extra_namespace A ...
    ("y ~ fn(x) + f", "a", "envB"),  # ... and B
    ("y ~ center(x) + f:g:center(x)", "a"),
    ("y ~ poly(d, 2) + x", "a"),
    ("y ~ bs(x, knots=kn) + f", "a"),
    ("y ~ f:g:C(d)", "a"),  # full rank needs helper terms with two categorical factors (their order must not depend on the hash seed)
    ("y ~ f + x + (1|g)", "c"),  # more than a thousand rows: two frames whose factor columns start and end alike ...
    ("y ~ f + x + (1|g)", "d"),  # ... but hold other levels in between  # 'kn' is an array of the caller whose entries are not in increasing order  # degenerate training data for the transform (two distinct points, degree 2)  # full rank needs a helper term (g:center(x)) that holds a stateful transform
]


def frame_long(variant):
    """1200 rows sorted by the factor: 'c' and 'd' start and end with the same levels but have other levels in between."""
    lev = ["a", "b", "c", "d"] if variant == "c" else ["a", "b2", "c2", "c3", "d"]
    n = 1200
    f = sorted(lev[i % len(lev)] for i in range(n))
    i = np.arange(n)
    return pd.DataFrame({"y": np.round(np.sin(i) + 2, 3), "x": np.round(np.cos(i * 0.7) * 2 + 3, 3), "z": np.round(np.sin(i * 1.3) + 4, 3), "f": f,
                         "g": sorted(["g1", "g2", "g3"][k % 3] for k in range(n)) if variant == "c" else sorted(["g1", "g2b", "g3"][k % 3] for k in range(n)),
                         "xc": np.round(np.cos(i), 3), "d": (i % 2).astype(float)})


_LONG = {}


def base_frame(which):
    if which in ("c", "d"):
        if which not in _LONG:
            _LONG[which] = frame_long(which)
        return _LONG[which].copy()
    return frame_a() if which == "a" else frame_b()


def eval_frame(which, j, version=0):
    nd = eval_frame0(which, j)
    if version:
        edit_in_place(nd)
    return nd


def edit_in_place(nd):
    """The caller edits the new-data frame in place (same object) before evaluating it again."""
    nd.loc[0, "x"] = nd.loc[0, "x"] + 7.5
    g = nd["g"].astype(object)
    g[len(nd) - 1] = g[0]
    nd["g"] = g
    f = nd["f"].astype(object)
    f[0] = f[len(nd) - 1]
    nd["f"] = f


BROKEN = 4  # index of a frame no design can evaluate (its numeric columns are missing): used as a deviation only


def eval_frame0(which, j):
    df = base_frame(which)
    if j == BROKEN:
        return df.iloc[[0, 3]].reset_index(drop=True).drop(columns=["x", "z", "xc", "d"])
    if j == 0:
        return df.iloc[[0, 3, 5]].reset_index(drop=True)
    if j == 1:
        return df.iloc[[5, 3, 0, 7]].reset_index(drop=True)
    if j == 2:
        nd = df.iloc[[1, 2, 4, 6]].reset_index(drop=True).copy()
        nd["x"] = nd["x"] * 3 + 10
        nd["z"] = nd["z"] + 2
        nd["xc"] = nd["xc"] * 2 + 5
        nd["d"] = nd["d"] * 1.5 + np.arange(len(nd))
        return nd
    nd = df.iloc[[2, 4, 6]].reset_index(drop=True).copy()
    nd["f"] = [nd["f"][0], "zz", nd["f"][2]]
    nd["g"] = ["gN", nd["g"][1], nd["g"][2]]
    nd["d"] = [3.0, 7.0, 4.0]
    return nd


def dig(a):
    if a is None:
        return None
    a = np.ascontiguousarray(np.asarray(a, dtype=float))
    return hashlib.blake2b(a.tobytes() + str(a.shape).encode(), digest_size=8).hexdigest()


def snap_design(dm):
    """Observable snapshot of a design."""
    s = {}
    for nm, M in (("response", dm.response), ("common", dm.common), ("group", dm.group)):
        if M is None:
            s[nm] = None
            continue
        e = {"m": dig(M.design_matrix), "str": str(M)}
        if nm != "response":
            e["slices"] = {k: (v.start, v.stop) for k, v in M.slices.items()}
            e["labels"] = {k: list(t.labels) for k, t in M.terms.items()}
            e["sub"] = {k: dig(M[k]) for k in M.terms}
            e["term_data"] = {k: dig(getattr(t, "data", None)) for k, t in M.terms.items()}  # what each term holds for its own frame
        if nm == "common":
            e["cols"] = list(M.as_dataframe().columns)
        s[nm] = e
    return s


def obs_result(out, exc, warns):
    if exc is not None:
        return {"exc": type(exc).__name__}  # the message lists levels in set-iteration order: not compared
    o = {"m": dig(out.design_matrix), "shape": list(np.asarray(out.design_matrix).shape),
         "slices": {k: [v.start, v.stop] for k, v in out.slices.items()}, "warn": len(warns)}
    if hasattr(out, "factors_with_new_levels"):
        o["fwnl"] = list(out.factors_with_new_levels)
    try:  # the result is read the way a user reads it: printed, and (common part) as a data frame
        o["str"] = str(out)
        o["repr"] = repr(out) == o["str"] or repr(out)
    except Exception as e:
        o["str"] = "raises " + type(e).__name__
    if hasattr(out, "as_dataframe"):
        try:
            d = out.as_dataframe()
            o["df"] = [list(d.columns), dig(d.to_numpy()), dig(d.to_numpy()) == o["m"]]
        except Exception as e:
            o["df"] = "raises " + type(e).__name__
    return o


NS_SRC = """
def build(formula, data):
    helper = 3  # a caller local
    return design_matrices(formula, data)
def build_env(formula, data, extra):
    return design_matrices(formula, data, env=shared_env, extra_namespace=extra)
def describe(formula):
    return model_description(formula)
"""


def make_ns():
    from formulae import design_matrices, model_description

    from formulae.categorical import Treatment

    from formulae.environment import Environment

    ns = {"design_matrices": design_matrices, "model_description": model_description, "np": np, "scale_factor": 2.0, "x": "not a column", "enc": Treatment(),
          "wv": np.array([2.0, 4.5, 1.0, 3.0, 8.0, 6.5, 7.0, 0.5, 5.5, 9.0, 2.5, 4.0]), "shared_env": Environment([{"np": np}]), "kn": np.array([4.0, 1.5, 3.0])}
    exec(NS_SRC, ns)
    return ns


def ns_snap(ns):
    def state(k, v):
        if k == "enc":
            return repr(sorted(vars(v).items()))
        if isinstance(v, np.ndarray):
            return dig(v)
        if k == "shared_env":
            return [sorted(map(str, d)) for d in v._namespaces] if hasattr(v, "_namespaces") else None
        return None

    return {k: (id(v), state(k, v)) for k, v in ns.items() if k != "__builtins__"}


def frame_snap(df):
    return (list(df.columns), [str(t) for t in df.dtypes], list(df.index), dig(df.select_dtypes("number").to_numpy()), df.select_dtypes(exclude="number").to_numpy().tolist())


class World:
    def __init__(self):
        import formulae

        self.formulae = formulae
        formulae.config["EVAL_UNSEEN_CATEGORIES"] = "error"
        self.ns = make_ns()
        self.ns0 = ns_snap(self.ns)
        self.slots = []
        self.results = []
        self.frames = {}
        self.version = {}

    def run(self, ev):
        """Execute one event, return its observation."""
        kind = ev[0]
        with warnings.catch_warnings(record=True) as rec:
            warnings.simplefilter("always")
            if kind == "build":
                f, which = SPECS[ev[1]][:2]
                df = base_frame(which)
                saved = frame_snap(df)
                if len(SPECS[ev[1]]) > 2:
                    k = 2.0 if SPECS[ev[1]][2] == "envA" else -3.0
                    dm = self.ns["build_env"](f, df, {"fn": (lambda v, k=k: v * k)})
                else:
                    dm = self.ns["build"](f, df)
                snap = snap_design(dm)
                self.slots.append({"dm": dm, "df": df, "df0": saved, "snap": snap, "spec": ev[1]})
                return {"snap": snap}
            if kind == "md":
                m = self.ns["describe"](SPECS[ev[1]][0])
                return {"terms": [str(t.name) for t in m.terms], "resp": m.response.term.name if m.response else None}
            if kind == "cfg":
                self.formulae.config["EVAL_UNSEEN_CATEGORIES"] = ev[1]
                return {"mode": self.formulae.config["EVAL_UNSEEN_CATEGORIES"]}
            if kind == "cfgbad":  # an assignment the configuration must refuse (and that must change nothing)
                try:
                    self.formulae.config["EVAL_UNSEEN_CATEGORIES"] = ev[1]
                    return {"refused": False}
                except (ValueError, KeyError):
                    return {"refused": True}
            if kind == "edit":  # the caller edits one of its new-data frames in place
                which, j = ev[1], ev[2]
                if (which, j) not in self.frames:
                    self.frames[(which, j)] = eval_frame(which, j)
                if not self.version.get((which, j)):
                    edit_in_place(self.frames[(which, j)])
                    self.version[(which, j)] = 1
                return {"edited": True}
            slot = self.slots[ev[1]]
            M = slot["dm"].common if kind == "evalc" else slot["dm"].group
            if M is None:
                return {"none": True}
            fk = (SPECS[slot["spec"]][1], ev[2])
            if "wv" in SPECS[slot["spec"]][0]:
                return {"none": True}  # the caller's array has the training length: new frames of other lengths are not evaluable
            if fk not in self.frames:  # the caller keeps its new-data frames: the same object is evaluated again
                self.frames[fk] = eval_frame(*fk)
            nd = self.frames[fk]
            saved = frame_snap(nd)
            try:
                out, exc = M.evaluate_new_data(nd), None
            except Exception as e:
                out, exc = None, e
            ours = [w for w in rec if w.category is UserWarning]
            o = obs_result(out, exc, ours)
            if frame_snap(nd) != saved:
                o["frame_mutated"] = True
            if out is not None:
                self.results.append((out, obs_result(out, None, ours)))
            return o

    def invariants(self):
        """O2: everything that existed before is observably unchanged."""
        bad = []
        for i, s in enumerate(self.slots):
            now = snap_design(s["dm"])
            if now != s["snap"]:
                keys = [k for k in now if now[k] != s["snap"][k]]
                sub = []
                for k in keys:
                    if isinstance(now[k], dict) and isinstance(s["snap"][k], dict):
                        sub += [f"{k}.{kk}" for kk in now[k] if now[k][kk] != s["snap"][k].get(kk)]
                bad.append(f"design in slot {i} (spec {s['spec']}) changed: {sub or keys}")
            if frame_snap(s["df"]) != s["df0"]:
                bad.append(f"caller's data frame of slot {i} was modified")
        for j, (out, o0) in enumerate(self.results):
            o1 = obs_result(out, None, [])
            o1["warn"] = o0["warn"]
            if o1 != o0:
                bad.append(f"earlier result #{j} changed: {[k for k in o1 if o1[k] != o0.get(k)]}")
        if ns_snap(self.ns) != self.ns0:
            bad.append("caller's namespace was modified")
        return bad


def ref_key(ev, slots_specs, mode, versions=None):
    if ev[0] == "edit":
        return ("edit",)
    if ev[0] == "cfgbad":
        return ("cfgbad", ev[1])
    if ev[0] in ("evalc", "evalg"):
        spec = slots_specs[ev[1]]
        v = (versions or {}).get((SPECS[spec][1], ev[2]), 0)
        return (ev[0], spec, ev[2], mode, v)
    if ev[0] == "build":
        return ("build", ev[1])
    if ev[0] == "md":
        return ("md", ev[1])
    if ev[0] == "cfg":
        return ("cfg", ev[1])
    return (ev[0], slots_specs[ev[1]], ev[2], mode)


def _ref_one(key):
    """Observation of one event executed alone in a fresh process-state."""
    from fmc import core

    with core.quiet():
        w = World()
        if key[0] in ("build", "md", "cfg", "cfgbad"):
            return key, w.run(list(key))
        if key[0] == "edit":
            return key, {"edited": True}
        op, spec, j, mode, v = key
        w.run(["cfg", mode])
        w.run(["build", spec])
        if v:
            w.frames[(SPECS[spec][1], j)] = eval_frame(SPECS[spec][1], j, 1)  # built directly in its edited form
        return key, w.run([op, 0, j])


def all_ref_keys():
    keys = [("build", i) for i in range(len(SPECS))] + [("md", i) for i in range(len(SPECS))] + [("cfg", m) for m in MODES]
    for op in ("evalc", "evalg"):
        for spec in range(len(SPECS)):
            for j in range(NFR):
                for mode in MODES:
                    for v in (0, 1):
                        keys.append((op, spec, j, mode, v))
            for mode in MODES:
                keys.append((op, spec, BROKEN, mode, 0))
    keys.append(("edit",))
    keys.append(("cfgbad", "ignore"))
    return keys


def reference_table(nproc=16):
    ctx = mp.get_context("fork")
    with ctx.Pool(nproc, maxtasksperchild=1) as pool:
        res = pool.map(_ref_one, all_ref_keys(), chunksize=1)
    return {json.dumps(k): v for k, v in res}


_REF = None
_DEPTH = 3
_HASHSEED_DIFFS = []


def prepare(tier, seed):
    global _REF, _DEPTH
    _DEPTH = 3 if tier == "quick" else 4
    _REF = reference_table()
    # O3: the same table from real fresh interpreters under other hash seeds
    from fmc import core

    for hs in ("1", "2") if tier == "quick" else ("1", "2", "3", "77"):
        env = dict(os.environ, PYTHONHASHSEED=hs, FMC_REPO=core.REPO, PYTHONDONTWRITEBYTECODE="1")
        code = "import sys, json; sys.path.insert(0, %r); from fmc import core; core.bind(); from fmc.checks import c07; print('TABLE' + json.dumps(c07.reference_table(8), sort_keys=True))" % core.VERIF
        r = subprocess.run([sys.executable, "-c", code], capture_output=True, text=True, env=env, cwd=core.VERIF)
        line = next((l for l in r.stdout.splitlines() if l.startswith("TABLE")), None)
        if line is None:
            _HASHSEED_DIFFS.append(f"PYTHONHASHSEED={hs}: fresh interpreter failed: {r.stderr[-300:]}")
            continue
        other = json.loads(line[5:])
        mine = json.loads(json.dumps(_REF, sort_keys=True))
        diff = [k for k in mine if mine[k] != other.get(k)]
        if diff:
            _HASHSEED_DIFFS.append(f"PYTHONHASHSEED={hs}: {len(diff)} reference observations differ from PYTHONHASHSEED={os.environ.get('PYTHONHASHSEED', 'random')}, e.g. {diff[0]}")


CORE = [0, 2, 3, 4, 6, 7, 9]  # specs used for the last event of the longest histories (quick tier)


def events_for(nslots, last=False):
    evs = [["build", i] for i in (CORE if last and _DEPTH == 3 else range(len(SPECS)))]
    for s in range(nslots):
        for j in range(NFR):
            evs.append(["evalc", s, j])
            evs.append(["evalg", s, j])
    evs += [["cfg", m] for m in MODES]
    evs += [["cfgbad", "ignore"]]
    evs += [["md", i] for i in ([0, 3, 4] if last else range(len(SPECS)))]
    return evs


def units(tier, seed):
    # a unit = all histories with a given 2-event prefix
    u = [["hashseeds"]]
    for e1 in events_for(0):
        n1 = 1 if e1[0] == "build" else 0
        for e2 in events_for(n1):
            u.append(["prefix", [e1, e2]])
    # deviation-bounded deeper histories: [set mode, build, evaluate X, one arbitrary event, evaluate X again]
    for spec in range(len(SPECS)):
        for op in ("evalc", "evalg"):
            for m0 in MODES:
                u.append(["sandwich", spec, op, m0])
        u.append(["repeat", spec])  # the third and fourth repetition of one evaluation, and of one build
    return u


def expand(unit):
    if unit[0] == "hashseeds":
        yield {"hashseeds": True}
        return
    if unit[0] == "repeat":
        spec = unit[1]
        for op in ("evalc", "evalg"):
            for j in range(NFR):
                for m0 in ("error", "silent"):
                    yield {"h": [["cfg", m0], ["build", spec], [op, 0, j], [op, 0, j], [op, 0, j], [op, 0, j]]}
        yield {"h": [["build", spec], ["build", spec], ["build", spec], ["evalc", 2, 0], ["evalc", 0, 0]]}
        return
    if unit[0] == "sandwich":
        spec, op, m0 = unit[1], unit[2], unit[3]
        which = SPECS[spec][1]
        for j in range(NFR):
            devs = events_for(1) + [["edit", which, j], ["evalc", 0, BROKEN], ["evalg", 0, BROKEN]]  # ... incl. an evaluation that is refused
            for d in devs:
                if d == [op, 0, j]:
                    continue
                yield {"h": [["cfg", m0], ["build", spec], [op, 0, j], d, [op, 0, j]]}
        return
    pre = unit[1]
    yield {"h": pre}
    n = sum(1 for e in pre if e[0] == "build")

    def rec(hist, nslots, depth):
        for e in events_for(nslots, last=(depth + 1 >= _DEPTH)):
            h2 = hist + [e]
            yield {"h": h2}
            if depth + 1 < _DEPTH:
                yield from rec(h2, nslots + (1 if e[0] == "build" else 0), depth + 1)

    if _DEPTH > 2:
        yield from rec(pre, n, 2)


def check_case(case, acc):
    if case.get("hashseeds"):
        if _HASHSEED_DIFFS:
            acc.case(case, "MISMATCH")
            acc.violation("deterministic-across-hash-seeds", "mismatch", case, "; ".join(_HASHSEED_DIFFS)[:500])
        else:
            acc.case(case, "ok", nontrivial=True)
        return
    hist = case["h"]
    w = World()
    mode = "error"
    specs = []
    problems = []
    try:
        for i, ev in enumerate(hist):
            acc.calls += 1
            o = w.run(ev)
            if ev[0] == "cfg":
                mode = ev[1]
            key = ref_key(ev, specs, mode, w.version)
            if ev[0] == "build":
                specs.append(ev[1])
            # only the last event of a history is new (its prefixes are histories of their own)
            if i == len(hist) - 1:
                acc.traces += 1
                ref = _REF[json.dumps(key)]
                if json.loads(json.dumps(o)) != json.loads(json.dumps(ref)):
                    d = [k for k in o if json.loads(json.dumps(o[k])) != json.loads(json.dumps(ref.get(k)))] if isinstance(o, dict) else []
                    if d == ["snap"]:
                        d = [f"snap.{k}" for k in o["snap"] if json.loads(json.dumps(o["snap"][k])) != json.loads(json.dumps(ref["snap"].get(k)))]
                    problems.append(("same-as-fresh-state", f"event {ev} after {hist[:i]} differs from the same event in a fresh state: {d}"))
                if o.get("frame_mutated"):
                    problems.append(("caller-data-untouched", f"event {ev}: the new data frame was modified"))
                bad = w.invariants()
                for b in bad[:2]:
                    clause = "caller-data-untouched" if "caller" in b else "existing-objects-unchanged"
                    problems.append((clause, f"after {hist}: {b}"))
    finally:
        w.formulae.config["EVAL_UNSEEN_CATEGORIES"] = "error"
    touching = sum(1 for e in hist if e[0] in ("build", "evalc", "evalg"))
    if problems:
        acc.case(hist, "MISMATCH", sample=False)
        seen = set()
        for clause, msg in problems:
            if clause not in seen:
                seen.add(clause)
                acc.violation(clause, "history", case, msg)
    else:
        acc.case(hist, "ok", nontrivial=touching >= 2)


def classify(case, clause, sig, detail):
    return "-"


def snippet(case):
    return f"# history over fmc.checks.c07.SPECS / eval_frame: {case.get('h')}"

"""C01 - grammar: precedence, associativity, nothing silently ignored (DESIGN.md section 3, C01)."""
import itertools

from fmc.refmodel import grammar as G

ID = "C01"
RULE = (
    "space 1: every character string up to the length bound over a 17-character alphabet is scanned and "
    "compared token by token with the reference tokenizer; space 2: every token string up to the length "
    "bound over the token alphabet is fed to model_description and Parser.parse - a string that is not a "
    "sentence of the (generous) reference grammar must be rejected, an accepted string must give the same "
    "model as its fully parenthesised rendering (implicit intercept made explicit), as every single/double "
    "redundant parenthesisation and every whitespace variant; space 3: all flat operator chains with "
    "distinct atoms and unary decorations.  A case is non-trivial when the implementation accepted it "
    "(both sides of the comparison were then executed) or when it is a non-sentence containing a complete "
    "formula prefix"
    "  Added clauses: the parser's AST (Grouping nodes removed) of every sentence of <= 14 tokens equals the AST "
    'of its fully parenthesised text, calls included; model_description of a text is the same before and after '
    'design_matrices on that text; inside a call or subscript no name, number, string or Python literal can be '
    "replaced by another one without changing the model (sentences without '-' and with at most one '|'). "
    'Later: the right-hand side wrapped as a whole, sentences with 10-12 terms, odd subscripts, trailing '
    'commas (not sentences), the list handed out by .terms emptied by the caller. '
)
ASSUMPTIONS = [
    "reference tokenizer / precedence table (fmc/refmodel/grammar.py) is the documented grammar",
    "inside call arguments only sentence membership is checked here (values and names: C12)",
    "acceptance of a sentence is never demanded (C02 does that for the documented language)",
]

CHARS = ["a", "1", ".", "_", " ", "'", '"', "`", "~", "+", "*", "/", "=", "<", "!", "(", "|"]
# token classes: (text, needs-fresh-name)
TOK_FULL = ["ID", "1", "0", "2", "'s'", "`q r`", "(", ")", "[", "]", "{", "}", ",", "+", "-", "*", ":", "**", "/", "<", "|", "~", "=", "%"]
TOK_MID = ["ID", "1", "0", "'s'", "(", ")", "[", "]", ",", "+", "-", "*", ":", "**", "|", "~", "=", "%"]
TOK_SMALL = ["ID", "1", "(", ")", "+", "-", ":", "**", "*", "|", "~", ","]
ALPHA = {"full": TOK_FULL, "mid": TOK_MID, "small": TOK_SMALL}
NAMES = "abcdefghijklmnopqrstuvwxyz"


def render_tokens(ts):
    out, k = [], 0
    for t in ts:
        if t == "ID":
            out.append(NAMES[k])
            k += 1
        else:
            out.append(t)
    return " ".join(out)


def units(tier, seed):
    u = []
    clen = 4 if tier == "quick" else 6
    for c1 in CHARS:
        for c2 in CHARS:
            u.append(["chars", c1 + c2, clen])
    u.append(["chars", "", 1])
    # full alphabet to length 4 (quick) / 5 (thorough); 18-class alphabet one longer; 12-class one longer still
    fl = 4 if tier == "quick" else 5
    for t1 in TOK_FULL:
        for t2 in TOK_FULL:
            u.append(["toks", "full", [t1, t2], fl, 0])
    u.append(["toks", "full", [], 1, 0])
    for t1 in TOK_MID:
        for t2 in TOK_MID:
            u.append(["toks", "mid", [t1, t2], fl + 1, fl + 1])
    if tier == "thorough":
        for t1 in TOK_SMALL:
            for t2 in TOK_SMALL:
                u.append(["toks", "small", [t1, t2], 7, 7])
    kmax = 4 if tier == "quick" else 5
    for o1 in CHAIN_OPS:
        u.append(["chains", o1, kmax])
    for o1 in CHAIN_OPS:
        u.append(["unary", 1, [o1]])
        for o2 in CHAIN_OPS:
            u.append(["unary", 2, [o1, o2]])
    # space 4: chains whose operands are composite (calls with positional / keyword arguments, braces, groups, subscripts)
    ops2 = CHAIN_OPS if tier == "thorough" else ["~", "+", ":", "*", "|"]
    for o1 in CHAIN_OPS:
        u.append(["composite", [o1]])
        for o2 in ops2:
            for first in range(len(COMPOSITE)):
                u.append(["composite", [o1, o2], first])
    for i in range(0, len(SENTENCES), 40):
        u.append(["sentences", tier, i])
    return u


COMPOSITE = [
    ["ID"], ["ID", "(", "ID", ")"], ["ID", "(", "ID", ",", "ID", "=", "ID", ")"], ["{", "ID", "+", "ID", "}"], ["(", "ID", "+", "ID", ")"],
    ["ID", "[", "ID", "]"], ["ID", "(", "ID", "(", "ID", ")", ",", "'s'", ")"],
]


CHAIN_OPS = ["~", "|", "<", "+", "-", "*", "/", ":", "**"]
_BULK = {}


def expand(unit):
    kind = unit[0]
    if kind == "chars":
        pre, L = unit[1], unit[2]
        if pre == "":
            for c in CHARS:
                yield ["c", c]
            return
        yield ["c", pre]
        for n in range(1, L - 1):
            for rest in itertools.product(CHARS, repeat=n):
                yield ["c", pre + "".join(rest)]
    elif kind == "toks":
        alpha = ALPHA[unit[1]]
        pre, L, only = unit[2], unit[3], unit[4]
        if not pre:
            for t in alpha:
                yield ["t", [t]]
            return
        if not only:
            yield ["t", pre]
        for n in range(1, L - 1):
            if only and n + 2 != only:
                continue  # shorter strings over this sub-alphabet are already in the full-alphabet space
            for rest in itertools.product(alpha, repeat=n):
                yield ["t", pre + list(rest)]
    elif kind == "chains":
        o1, kmax = unit[1], unit[2]
        yield ["t", ["ID", o1, "ID"]]
        for k in range(1, kmax):
            for ops in itertools.product(CHAIN_OPS, repeat=k):
                ts = ["ID", o1]
                for o in ops:
                    ts += ["ID", o]
                ts.append("ID")
                yield ["t", ts]
    elif kind == "unary":
        signs = ["", "-", "+", "- -"]
        atoms = ["ID", "1", "0"]
        k, ops = unit[1], unit[2]
        if True:
            if True:
                for sg in itertools.product(signs, repeat=k + 1):
                    for at in itertools.product(atoms, repeat=k + 1):
                        ts = []
                        for j in range(k + 1):
                            ts += sg[j].split() + [at[j]]
                            if j < k:
                                ts.append(ops[j])
                        yield ["t", ts]
    elif kind == "composite":
        ops = unit[1]
        firsts = range(len(COMPOSITE)) if len(unit) < 3 else [unit[2]]
        for a in firsts:
            for rest in itertools.product(range(len(COMPOSITE)), repeat=len(ops)):
                ts = list(COMPOSITE[a])
                for o, r in zip(ops, rest):
                    ts += [o] + COMPOSITE[r]
                yield ["t", ts]
    elif kind == "sentences":
        for s in SENTENCES[unit[2] : unit[2] + 40]:
            yield ["s", s]


# hand-written longer sentences (calls, braces, subscripts, nesting) - each goes through the same oracle
SENTENCES = [
    "y ~ a + b : c * d / e ** 2 - f",
    "y ~ (a + b) : (c + d) + (x | g) + (0 + z | h)",
    "y [ lvl ] ~ f ( x , k = 2 ) + { a + b * c } : g",
    "y [ 'l v' ] ~ np.log ( x ) * C ( z , levels = l ) + ( a | g : h )",
    "prop ( s , n ) ~ a * b * c - a : b : c",
    "y ~ ( a + b + c ) ** 3 - a : b : c + ( 1 | g ) + ( a + b | h )",
    "y ~ f ( g ( x , 'q' ) , h ( { z } ) ) : a / b",
    "y ~ - 1 + a + ( ( b ) )",
    "y ~ 0 + a : b + `q r` * c",
    "a * b + ( c | g + h )",
    "y ~ a / ( b + c ) + ( a : b | g / h )",
    "y ~ a + b | g",
    "y ~ a < b",
    "y ~ ( a < b )",
    "f ( x , ) ~ a",
    "y ~ f ( a = b | c )",
    "y ~ a + ( b ~ c )",
    "y ~ a ** 2 ** 3 : b * c / d",
    "y ~ f ( x , 'a  b' ) + g ( \"c\td\" )",
    "y ~ f ( x , ' a ' )",
    "y ~ I ( a < b == c ) + g ( a == b != c , k = a + b * c )", "y ~ I ( a >= b < c <= d )", "y ~ f ( a + 1 > b == c - 2 )", "y ~ { a - b - c } + { a / b * c }",
    "y ~ f ( a ** b ** c , - a ** b ) : g ( a * b : c )",
    "y ~ f ( x , k = 2 ) + f ( x , k = 3 )", "y ~ f ( x , 2 ) + f ( x , 3 )", "y ~ f ( x , k = 's' ) : f ( x , k = 't' )", "y ~ f ( x , k = True ) + f ( x , k = False ) + ( 1 | g ( h , 1 ) ) + ( 1 | g ( h , 2 ) )",
    "y ~ x + ( a | s ) + ( b | s ) + ( c | s ) + ( d | s ) + ( e | s ) + ( f | s ) + ( g | s ) + ( h | s ) + z",
    "y ~ a + b + c + d + e + f + g + h + i + j + k + ( x | s ) + ( 1 | t )", "y ~ a : b + c : d + e : f + g + h + i + j + k + l + m + n + ( x | s )",
    "y ~ f ( x , )", "y ~ log ( x , base = 2 , )", "y ~ g ( x , h ( z , ) ) + a", "y ~ f ( x , , )", "y ~ f ( , x )",
    "a [ b ] ( )", "y ~ a [ 's' ] ( x )", "y ~ f ( a [ b ] ( x ) ) + c", "y [ l ] ( z ) ~ x",  # a subset cannot be called
    "y ~ x [ ( a ) ]", "x [ ( 'a' ) ] ~ b", "y [ `a` ] ~ b", "y [ { a } ] ~ b", "y [ f ( a ) ] ~ b", "y ~ a + x [ ( ( b ) ) ]", "y [ - a ] ~ b", "y [ 1 ] ~ b",
    "y [ '' ] ~ a", 'y [ "" ] ~ a + f ( b , \'\' )', "y [ ' ' ] ~ a", "y [ 's' ] ~ f ( a , k = '' ) + f ( a , k = 's' )",
]
# chains around a multi-term base: associativity of ** and its precedence against : * / + are only observable here
for _base in ("( a + b + c )", "( a + b + c + d )"):
    for _o1, _o2 in itertools.product(["**", ":", "*", "/", "+"], repeat=2):
        for _x, _y in itertools.product(["2", "3", "e"], repeat=2):
            SENTENCES.append(f"y ~ {_base} {_o1} {_x} {_o2} {_y}")
            SENTENCES.append(f"y ~ {_x} {_o1} {_base} {_o2} {_y}")
SENTENCES = list(dict.fromkeys(SENTENCES))


def stripped_ast(formula):
    """The parser's AST without Grouping nodes (None if scanning or parsing fails)."""
    from formulae.scanner import Scanner
    from formulae.parser import Parser

    def strip(n):
        name = type(n).__name__
        if name == "Grouping":
            return strip(n.expression)
        if name == "Binary":
            return ("Binary", n.operator.kind, strip(n.left), strip(n.right))
        if name == "Unary":
            return ("Unary", n.operator.kind, strip(n.right))
        if name == "Call":
            return ("Call", strip(n.callee), tuple(strip(a) for a in n.args))
        if name == "Assign":
            return ("Assign", strip(n.name), strip(n.value))
        if name == "Variable":
            return ("Variable", n.name.lexeme, None if n.level is None else strip(n.level))
        if name == "QuotedName":
            return ("QuotedName", n.expression.lexeme)
        if name == "Literal":
            return ("Literal", repr(n.value), n.lexeme)
        return (name, repr(n))

    try:
        return strip(Parser(Scanner(formula).scan(add_intercept=False)).parse())
    except Exception:
        return None


def low_level(formula, add_intercept=True):
    """Scanner -> Parser -> Resolver by hand: (parsed, cursor_at_eof, model key or None)."""
    from formulae.scanner import Scanner
    from formulae.parser import Parser
    from formulae.resolver import Resolver
    from formulae.terms import Model

    try:
        p = Parser(Scanner(formula).scan(add_intercept=add_intercept))
        ast = p.parse()
    except Exception:
        return False, True, None
    at_eof = p.tokens[p.current].kind == "EOF"
    try:
        d = Resolver(ast).resolve()
        if not isinstance(d, Model):
            d = Model(d)
        return True, at_eof, model_key(d)
    except Exception:
        return True, at_eof, None


def impl_model(formula, add_intercept=True):
    parsed, at_eof, key = low_level(formula, add_intercept)
    if key is None:
        raise ValueError("rejected")
    return key, at_eof


def model_key(d):
    """Names of the response, the common and the group terms; a variable written v[level] also shows its level."""

    def refs(term):
        out = []
        for part in (getattr(term, "components", None), getattr(getattr(term, "expr", None), "components", None), getattr(getattr(term, "factor", None), "components", None)):
            for c in part or []:
                r = getattr(c, "reference", None)
                if r is not None:
                    out.append((str(getattr(c, "name", "")), repr(r)))
        return tuple(out)

    def show(term):
        r = refs(term)
        return (str(term.name), r) if r else str(term.name)

    resp = show(d.response.term) if d.response is not None else None
    return (resp, tuple(show(t) for t in d.common_terms), tuple(show(t) for t in d.group_terms))


def md_key(formula):
    from formulae import model_description

    return model_key(model_description(formula))


REPLACEMENTS = {"STR": ("''", "'zz'"), "NUM": ("7", "77"), "ID": ("zq",), "PYLIT": ("None", "True")}
_FRAME = []


def build_on_frame(formula):
    """design_matrices(formula, frame) on a frame with a column per letter (a, b, c categorical and crossed)."""
    import numpy as np
    import pandas as pd
    from formulae import design_matrices

    if not _FRAME:
        rows = list(itertools.product(["u", "v"], ["p", "q", "r"], ["m", "n"]))
        d = {"a": [r[0] for r in rows], "b": [r[1] for r in rows], "c": [r[2] for r in rows]}
        rng = np.random.default_rng(5)
        for ch in NAMES[3:]:
            d[ch] = rng.normal(size=len(rows)).round(3)
        _FRAME.append(pd.DataFrame(d))
    try:
        design_matrices(formula, _FRAME[0])
        return "built"
    except Exception:
        return "not-built"


def ws_variants(toks):
    """Whitespace variants of a token list that keep the reference token list."""
    texts = [t[1] for t in toks]
    base = [(t[0], t[1]) for t in toks]
    n = len(texts)
    out = []
    if n <= 7:
        for gaps in itertools.product(["", " "], repeat=n - 1):
            s = texts[0] + "".join(g + t for g, t in zip(gaps, texts[1:]))
            try:
                if [(t[0], t[1]) for t in G.tokenize(s)] == base:
                    out.append(s)
            except G.Reject:
                pass
    sp = " ".join(texts)
    for w in ("\t", "\n", "  ", " \r\n "):
        for i in range(n - 1):
            out.append(" ".join(texts[: i + 1]) + w + " ".join(texts[i + 1 :]))
        out.append(w + sp)
        out.append(sp + w)
    return [s for s in dict.fromkeys(out) if s != sp]


def check_case(case, acc):
    if case[0] == "c":
        return check_chars(case, acc)
    s = render_tokens(case[1]) if case[0] == "t" else case[1]
    try:
        toks = G.tokenize(s)
        sentence = G.is_sentence(toks)
    except G.Reject:
        toks, sentence = None, False
    acc.calls += 2
    acc.traces += 1
    key = None
    try:
        key = md_key(s)
        accepted = True
    except Exception:
        accepted = False
    parsed, at_eof, low = low_level(s)
    low_ok = low is not None
    if accepted != low_ok or (accepted and low != key):
        acc.violation("pipeline-agree", "mismatch", case, f"{s!r}: model_description and Scanner/Parser/Resolver disagree")
    if sentence and parsed and len(toks) <= 14:
        # grammar level, calls included: the parser's tree (Grouping nodes removed) must be the tree of the fully
        # parenthesised text - this is where comparison chains and operators inside call arguments are observable
        a1 = stripped_ast(s)
        deep = G.deep_paren(G.parse(toks), toks)
        a2 = stripped_ast(deep)
        acc.calls += 2
        if a1 is not None and a1 != a2:
            acc.violation("ast-of-parenthesised-form", "mismatch", case, f"{s!r} is not parsed like its fully parenthesised form {deep!r}")
    if not sentence:
        if accepted or low_ok:
            acc.case(s, "NONSENTENCE-ACCEPTED", nontrivial=True, sample=False)
            acc.violation("nonsentence-rejected", "accepted", case, f"{s!r} is not a sentence of the grammar but was accepted as {key}")
        elif parsed:
            acc.case(s, "NONSENTENCE-PARSED", nontrivial=True, sample=False)
            if not at_eof:
                acc.violation("parser-consumes-all", "cursor", case, f"{s!r}: Parser.parse returned with the cursor before EOF")
            else:
                acc.violation("nonsentence-rejected", "parser-accepted", case, f"{s!r} is not a sentence but Parser.parse accepted it")
        else:
            acc.bulk(1, "nonsentence-rejected")
        return
    if not accepted:
        acc.bulk(1, "sentence-rejected")
        return
    if not at_eof:
        acc.violation("parser-consumes-all", "cursor", case, f"{s!r}: accepted with unconsumed tokens")
    # accepted sentence: compare with the fully parenthesised rendering of the augmented token list
    aug = G.augment(toks)
    tree = G.parse(aug)
    problems = []
    full = G.paren(tree, aug)
    acc.calls += 1
    acc.traces += 1
    try:
        k2, _ = impl_model(full, add_intercept=False)
        if k2 != key:
            problems.append(("paren-equal", f"{s!r} -> {key} but fully parenthesised {full!r} -> {k2}"))
    except Exception as e:
        problems.append(("paren-equal", f"{s!r} accepted but fully parenthesised {full!r} raised {type(e).__name__}: {e}"))
    sp = G.spans(tree)
    if len(aug) <= 12 or case[0] == "s":
        variants = [G.paren(tree, aug, True, {x}) for x in sp] + [G.paren(tree, aug, True, set(sp))]
        # redundant parentheses on the original text (intercept inserted by the scanner as usual)
        tree0 = G.parse(toks)
        sp0 = G.spans(tree0)
        orig = []
        ins = 0
        for j, t in enumerate(toks):
            if t[0] == "~":
                ins = j + 1
        for x in sp0:
            a, b = x
            if a == ins:
                # the scanner inserts the implicit "1 +" here: wrapping re-brackets it, which matters when the span removes or sets
                # the intercept, or when its top-level operator binds looser than '+' ("1 + a | g" is "(1 + a) | g")
                depth, loose = 0, False
                for t in toks[a:b]:
                    depth += t[0] in "([{"
                    depth -= t[0] in ")]}"
                    loose = loose or (depth == 0 and G.BIN_PREC.get(t[0], 9) < 4)
                if loose or any(t[0] == "-" or (t[0] == "NUM" and t[1] in ("0", "1")) for t in toks[a:b]):
                    continue
            orig.append(" ".join([t[1] for t in toks[:a]] + ["("] + [t[1] for t in toks[a:b]] + [")"] + [t[1] for t in toks[b:]]))
            orig.append(" ".join([t[1] for t in toks[:a]] + ["( ("] + [t[1] for t in toks[a:b]] + [") )"] + [t[1] for t in toks[b:]]))
        for v in dict.fromkeys(variants):
            acc.calls += 1
            try:
                kv, _ = impl_model(v, add_intercept=False)
                if kv != key:
                    problems.append(("redundant-parens", f"{s!r} -> {key} but {v!r} -> {kv}"))
            except Exception as e:
                problems.append(("redundant-parens", f"{s!r} accepted but {v!r} raised {type(e).__name__}"))
        for v in dict.fromkeys(orig):
            acc.calls += 1
            try:
                kv = md_key(v)
                if kv != key:
                    problems.append(("redundant-parens", f"{s!r} -> {key} but {v!r} -> {kv}"))
            except Exception as e:
                problems.append(("redundant-parens", f"{s!r} accepted but {v!r} raised {type(e).__name__}"))
        for v in ws_variants(toks):
            acc.calls += 1
            try:
                kv = md_key(v)
                if kv != key:
                    problems.append(("whitespace", f"{s!r} -> {key} but {v!r} -> {kv}"))
            except Exception as e:
                problems.append(("whitespace", f"{s!r} accepted but {v!r} raised {type(e).__name__}"))
    # no token inside a call or a subscript is ignored: another literal / name in its place gives another model
    # (a removed term may legitimately differ without trace; what a group term of a group term means is not defined)
    if len(toks) <= 40 and not any(t[0] == "-" for t in toks) and sum(t[0] == "|" for t in toks) <= 1:
        inside = set()

        def mark(n):
            if n[0] in ("call", "sub"):
                inside.update(range(n[-1][0], n[-1][1]))
            for ch in n[1:-1]:
                if isinstance(ch, tuple):
                    mark(ch)
                elif isinstance(ch, list):
                    for c2 in ch:
                        mark(c2)

        mark(G.parse(toks))
        for j, t in enumerate(toks):
            if t[0] not in REPLACEMENTS or j not in inside:
                continue
            for other in REPLACEMENTS[t[0]]:
                if other == t[1] or (t[0] == "STR" and other[1:-1] == t[2]):
                    continue  # (the same literal in the other quote style is the same level)
                v = " ".join(other if i == j else u[1] for i, u in enumerate(toks))
                acc.calls += 1
                try:
                    kv = md_key(v)
                except Exception:
                    continue
                if kv == key:
                    problems.append(("literal-not-ignored", f"{s!r} and {v!r} give the same model {key}"))
    # the list handed out by .terms belongs to the caller: emptying it leaves the description as it was
    try:
        from formulae import model_description as _md

        d_ = _md(s)
        k_before = model_key(d_)
        handed = d_.terms
        handed.reverse()
        del handed[:]
        if model_key(d_) != k_before or k_before != key:
            problems.append(("description-not-aliased", f"{s!r}: after the caller emptied the list it got from .terms the description changed from {k_before} to {model_key(d_)}"))
    except Exception:
        pass
    # interpretation is a function of the text alone: building a design from the same text in between changes nothing
    built = build_on_frame(s)
    acc.calls += 2
    try:
        k3 = md_key(s)
    except Exception as e:
        k3 = f"raised {type(e).__name__}"
    if k3 != key:
        problems.append(("interpretation-stable", f"{s!r} -> {key}, but after design_matrices on the same text ({built}) -> {k3}"))
    acc.table("design_built_in_between", built)
    ops = G.binops(tree)
    for a, b in zip(ops, ops[1:]):
        acc.table("operator_pairs_in_accepted_sentences", f"{a} {b}")
    acc.case(s, "sentence-accepted", nontrivial=True, sample=len(toks) > 3)
    seen = set()
    for clause, msg in problems:
        if clause not in seen:
            seen.add(clause)
            acc.violation(clause, "mismatch", case, msg)


IMPL_KIND = {
    "STRING": "STR", "BQNAME": "BQ", "NUMBER": "NUM", "IDENTIFIER": "ID", "PYTHON_LITERAL": "PYLIT",
    "LEFT_PAREN": "(", "RIGHT_PAREN": ")", "LEFT_BRACKET": "[", "RIGHT_BRACKET": "]", "LEFT_BRACE": "{",
    "RIGHT_BRACE": "}", "COMMA": ",", "PERIOD": ".", "PLUS": "+", "MINUS": "-", "SLASH": "/",
    "SLASH_SLASH": "//", "STAR": "*", "STAR_STAR": "**", "BANG": "!", "BANG_EQUAL": "!=", "EQUAL": "=",
    "EQUAL_EQUAL": "==", "LESS": "<", "LESS_EQUAL": "<=", "GREATER": ">", "GREATER_EQUAL": ">=",
    "MODULO": "%", "TILDE": "~", "COLON": ":", "PIPE": "|",
}


def check_chars(case, acc):
    from formulae.scanner import Scanner

    s = case[1]
    acc.calls += 1
    acc.traces += 1
    try:
        ref = [(k, lx, lit) for k, lx, lit in G.tokenize(s)]
    except G.Reject:
        ref = None
    try:
        toks = Scanner(s).scan(add_intercept=False)
        got = [(IMPL_KIND.get(t.kind, t.kind), t.lexeme, t.literal) for t in toks]
        if not got or got[-1][0] != "EOF":
            acc.violation("scanner-tokens", "no-eof", case, f"{s!r}: token list does not end with EOF")
        got = got[:-1]
    except Exception:
        got = None
    if ref is None and got is None:
        acc.bulk(1, "chars-both-reject")
        return
    if ref is None or got is None:
        acc.case(s, "chars-MISMATCH", sample=False)
        acc.violation("scanner-tokens", "accept-differs", case, f"{s!r}: reference tokens {ref}, scanner {got}")
        return
    ok = len(ref) == len(got) and all(
        r[0] == g[0] and r[1] == g[1] and (r[2] == g[2] and type(r[2]) is type(g[2]) or r[0] in ("STR",) and r[2] == g[2])
        for r, g in zip(ref, got)
    )
    if not ok:
        acc.case(s, "chars-MISMATCH", sample=False)
        acc.violation("scanner-tokens", "tokens-differ", case, f"{s!r}: reference tokens {ref}, scanner {got}")
        return
    acc.case(s, "chars-tokens-equal", nontrivial=len(ref) > 1, sample=len(ref) > 2)


def classify(case, clause, sig, detail):
    return "-"


def snippet(case):
    s = render_tokens(case[1]) if case[0] == "t" else case[1]
    return f"from formulae import model_description\nprint(model_description({s!r}))"

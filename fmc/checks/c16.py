"""C16 - built-in helper functions and aliases keep their documented pointwise meaning (DESIGN.md 3, C16)."""
import numpy as np
import pandas as pd

from fmc.checks import c06

ID = "C16"
RULE = (
    "binary(x[, s]) for every column type (str, int, negative/multi-digit int, float, ordered categorical) and every "
    "value s present, two absent values, s omitted, s taken from the namespace; offset of a column / int / float / "
    "call / expression; prop with column, constant, expression and keyword trials, and every invalid specification; "
    "I(e) and {e}; each at training time and on every new frame of the C06 space (all row sequences of length <= 2, "
    "leave-one-level-out subsets, reversed, triplicated); every alias pair (B/binary, p/prop/proportion, "
    "standardize/scale, T/C+Treatment, S/C+Sum) over the pool with identical matrices, labels modulo the name, and "
    "identical behaviour on every new frame.  A case is one helper expression; non-trivial: it is evaluated on new "
    "frames too"
    '  Added: integer levels whose string order differs, a zero level, an empty-string level, close float '
    'values, declared-but-unobserved categories, an unordered Categorical with unsorted categories in the '
    'alias pairs, a work frame updated in place between evaluations, the data-frame view of every new-data '
    'result. '
    'Later: the data argument by keyword, blank-variant values, 1200-row new frames and frames lacking a '
    'value, reported trials overwritten by the caller, trials equal to the largest count, objects named like '
    'the helpers in the namespace. '
)
ASSUMPTIONS = ["new frames are made of rows of the training frame (C06 space); values outside the training frame are C10's business"]

_TIER = "quick"


def prepare(tier, seed):
    global _TIER
    _TIER = tier


def frame():
    df = c06.frame("str")
    df["s"] = [1, 0, 3, 2, 5, 4, 2, 1]
    df["n"] = [5, 6, 7, 5, 6, 7, 8, 9]
    df["m"] = [9, 10, -1, -2, 10, 9, -2, -1]  # multi-digit and negative integers: string order differs from numeric order
    df["xf"] = [2.5, 10.5, 2.5, 0.25, 10.5, 7.0, 0.25, 7.0]
    df["z0"] = [1, 0, -1, 0, 1, -1, 1, 0]  # zero is a level, and not the first one
    df["e0"] = ["b", "", "a", "", "b", "a", "b", ""]
    df["inc"] = [250000.0, 250000.5, 250001.0, 250000.5, 0.0001, 0.0, 250001.0, 0.0]  # distinct values that are "close"
    df["cu"] = pd.Categorical(df["f"], categories=["a", "d", "b", "c"])  # 'd' is declared but never occurs
    df["tb"] = ["a ", "a", "b", "a ", "b", "a", " a", "b"]  # values that differ only in surrounding blanks
    df["fu"] = pd.Categorical(df["f"], categories=["c", "a", "b"])  # not ordered, categories stored in another order than sorted
    return df


def lit(v):
    return repr(v) if isinstance(v, str) else str(v)


def cases():
    df = frame()
    out = []
    out.append({"k": "binary-absent", "col": "cu", "s": "d"})
    out.append({"k": "binary-absent", "col": "o", "s": "zz"})
    out.append({"k": "binary-absent", "col": "inc", "s": 250000.25})
    for col in ("f", "k", "m", "xf", "o", "g", "cu", "inc", "tb"):
        vals = sorted(set(df[col].tolist()))
        for s in vals:
            for fn in ("binary", "B"):
                out.append({"k": "binary", "fn": fn, "col": col, "s": s})
        out.append({"k": "binary", "fn": "binary", "col": col, "s": None})
        out.append({"k": "binary", "fn": "B", "col": col, "s": None})
        out.append({"k": "binary-absent", "col": col, "s": "zz" if isinstance(vals[0], str) else 999})
        out.append({"k": "binary-ns", "col": col, "s": vals[-1]})
    for e, kind in (("z", "col"), ("3", "const"), ("2.5", "const"), ("np.log(z)", "expr"), ("z * 2 + 1", "expr"), ("-z", "expr"), ("z / x", "expr"), ("k", "col"), ("1 / z", "expr"), ("10 - z", "expr"), ("2 ** x", "expr")):
        out.append({"k": "offset", "e": e, "kind": kind})
    # the data argument itself passed by keyword
    out.append({"k": "kwdata", "arg": "binary(x=f, success='a')", "col": "f", "eq": "a"})
    out.append({"k": "kwdata", "arg": "B(x=f)", "col": "f", "eq": "a"})
    out.append({"k": "kwdata", "arg": "B(success=20, x=k)", "col": "k", "eq": 20})
    out.append({"k": "kwdata", "arg": "offset(x=z)", "col": "z", "eq": None})
    out.append({"k": "kwdata", "arg": "I(x=z)", "col": "z", "eq": None})
    out.append({"k": "kwdata", "arg": "binary(x=e0, success='')", "col": "e0", "eq": ""})
    for fn in ("prop", "p", "proportion"):
        for tr in ("n", "9", "n + 1", "trials=n", "trials=9", "n * 2", "5", "trials=5"):  # 5 = the largest number of successes: not more than the trials
            out.append({"k": "prop", "fn": fn, "tr": tr})
    for succ, tr in (("xf", "n"), ("n", "s"), ("s", "9.5"), ("s", "3"), ("s", "z"), ("3", "n"), ("s", "'9'")):
        out.append({"k": "prop-invalid", "succ": succ, "tr": tr})
    for e in ("x + z", "x * 2 - z / 4", "x ** 2", "(x + 1) * (z - 1)", "np.sqrt(x) + 1", "10 - x", "1 / x", "2 ** z", "0.5 - z / 2", "3 < z", "1 - (2 - x)"):
        out.append({"k": "identity", "e": e})
    pairs = [("B(f, 'b')", "binary(f, 'b')"), ("B(k)", "binary(k)"), ("standardize(x)", "scale(x)"), ("standardize(np.log(x))", "scale(np.log(x))"),
             ("T(f, 'c')", "C(f, Treatment('c'))"), ("T(f)", "C(f, Treatment)"), ("T(f)", "C(f)"), ("T(k, 20)", "C(k, Treatment(20))"), ("S(f, 'a')", "C(f, Sum('a'))"),
             ("S(f)", "C(f, Sum)"), ("S(o)", "C(o, Sum())"), ("T(f, ref='b')", "T(f, 'b')"), ("S(f, omit='b')", "S(f, 'b')"),
             ("I(o)", "o"), ("{o}", "o"), ("I(f)", "f"), ("I(g)", "g"), ("T(z0, 0)", "C(z0, Treatment(0))"), ("S(z0, 0)", "C(z0, Sum(0))"), ("T(z0, 1)", "C(z0, Treatment(1))"), ("T(e0, 'b')", "C(e0, Treatment('b'))"),
             ("T(fu, 'c')", "C(fu, Treatment('c'))"), ("T(fu)", "C(fu, Treatment)"), ("T(fu)", "C(fu)"), ("S(fu, 'a')", "C(fu, Sum('a'))"), ("S(fu)", "C(fu, Sum)"), ("S(fu)", "C(fu, Sum())"),
             ("T(cu)", "C(cu)"), ("S(cu, 'b')", "C(cu, Sum('b'))"), ("I(fu)", "fu"), ("C(fu)", "fu")]
    ctx = ["y ~ {a}", "y ~ 0 + {a}", "y ~ x + {a}:x", "y ~ ({a} | g)", "y ~ {a} + z"]
    for a, b in pairs:
        for c in ctx:
            if "|" in c and ("B(" in a or "standardize" in a) and False:
                continue
            out.append({"k": "alias", "a": c.format(a=a), "b": c.format(a=b), "na": a, "nb": b})
    for a, b in (("p(s, n)", "prop(s, n)"), ("proportion(s, n)", "prop(s, n)"), ("p(s, 9)", "proportion(s, 9)")):
        out.append({"k": "alias", "a": f"{a} ~ x", "b": f"{b} ~ x", "na": a, "nb": b})
    return out


def units(tier, seed):
    cs = cases()
    return [cs[i : i + 6] for i in range(0, len(cs), 6)]


def expand(unit):
    return unit


def build(formula, df, **ns):
    from formulae import design_matrices

    # (the caller's namespace also holds ordinary objects named like the helpers and their aliases: the helpers come first)
    decoys = {"p": 0.25, "B": 32, "T": 10, "S": "s", "binary": None, "prop": 1, "proportion": 2, "offset": 3, "standardize": 4, "I": 5, "C": 6, "scale": 7}
    return design_matrices(formula, df, extra_namespace=dict(decoys, np=np, **ns))


def newframes(df):
    out = []
    # more than a thousand rows: every row 150 times; and large frames in which one value of a column never occurs
    out.append(("all rows x 150", df.iloc[list(range(len(df))) * 150].reset_index(drop=True)))
    for col in ("f", "k", "tb", "o"):
        for v in sorted(set(df[col].tolist()))[:2]:
            rows = [i for i in range(len(df)) if df[col].iloc[i] != v]
            out.append((f"rows without {col}={v!r} x 200", df.iloc[rows * 200].reset_index(drop=True)))
    for idx in c06.new_frames(_TIER):
        out.append((idx, df.iloc[idx].reset_index(drop=True)))
        if len(idx) <= 2:
            out.append((idx, df.iloc[idx]))  # labels kept
    return out


def check_case(case, acc):
    from fmc.core import exc_sig

    df = frame()
    k = case["k"]
    problems = []
    evaluated_new = False

    def col_on_new(dm, name, want_fn, what):
        nonlocal evaluated_new
        evaluated_new = True
        for idx, nd in newframes(df):
            acc.calls += 1
            acc.traces += 1
            try:
                res = dm.common.evaluate_new_data(nd)
                got = np.asarray(res[name], dtype=float).reshape(len(nd), -1)
                view = res.as_dataframe()
                shown = np.asarray(view[list(res.terms[name].labels)], dtype=float).reshape(len(view), -1)
            except Exception as e:
                problems.append((what, exc_sig(e), f"{what}: new frame of rows {idx} raised {type(e).__name__}: {e}"))
                return
            want = np.asarray(want_fn(nd), dtype=float).reshape(len(nd), -1)
            if shown.shape != want.shape or not np.allclose(shown, want, rtol=1e-12, atol=0):
                problems.append((what, "dataframe-view", f"{what}: as_dataframe() of the result for rows {idx} does not show the values of that frame"))
                return
            if got.shape != want.shape or not np.allclose(got, want, rtol=1e-12, atol=0):
                problems.append((what, "values", f"{what}: on the new frame of rows {idx} got {got.reshape(-1)[:6].tolist()}, expected {want.reshape(-1)[:6].tolist()}"))
                return
        # one work frame updated in place between evaluations (same object, other contents)
        work = df.iloc[[0, 1]].reset_index(drop=True)
        for idx in ([0, 1], [5, 2], [7, 7], [3, 4], [5, 2]):
            for c_ in work.columns:
                work[c_] = df[c_].iloc[idx].values
            acc.calls += 1
            try:
                got = np.asarray(dm.common.evaluate_new_data(work)[name], dtype=float).reshape(len(work), -1)
            except Exception as e:
                problems.append((what, "refilled-" + exc_sig(e), f"{what}: work frame refilled in place with rows {idx} raised {type(e).__name__}: {e}"))
                return
            want = np.asarray(want_fn(work), dtype=float).reshape(len(work), -1)
            if got.shape != want.shape or not np.allclose(got, want, rtol=1e-12, atol=0):
                problems.append((what, "refilled", f"{what}: work frame refilled in place with rows {idx} got {got.reshape(-1)[:6].tolist()}, expected {want.reshape(-1)[:6].tolist()}"))
                return

    if k == "binary":
        col, s = case["col"], case["s"]
        arg = f"{case['fn']}({col})" if s is None else f"{case['fn']}({col}, {lit(s)})"
        succ = sorted(set(df[col].tolist()))[0] if s is None else s
        acc.calls += 2
        try:
            dm = build(f"y ~ {arg}", df)
            got = np.asarray(dm.common[arg], dtype=float).reshape(-1)
            if not np.array_equal(got, (df[col] == succ).to_numpy(dtype=float)):
                problems.append(("binary-training", "values", f"{arg}: training column is not 1 exactly where {col} == {succ!r}"))
            dr = build(f"{arg} ~ x", df)
            if not np.array_equal(np.asarray(dr.response.design_matrix, dtype=float).reshape(-1), (df[col] == succ).to_numpy(dtype=float)):
                problems.append(("binary-training", "values", f"{arg} as response is not 1 exactly where {col} == {succ!r}"))
            col_on_new(dm, arg, lambda nd: (nd[col] == succ).to_numpy(dtype=float), "binary-prediction")
        except Exception as e:
            problems.append(("binary-training", exc_sig(e), f"{arg} raised {type(e).__name__}: {e}"))
    elif k == "binary-absent":
        for fn in ("binary", "B"):
            arg = f"{fn}({case['col']}, {lit(case['s'])})"
            acc.calls += 1
            try:
                build(f"y ~ {arg}", df)
                problems.append(("binary-absent-refused", "accepted", f"{arg}: a success value that never occurs in training was accepted"))
            except Exception:
                pass
    elif k == "binary-ns":
        arg = f"binary({case['col']}, sv)"
        acc.calls += 1
        try:
            dm = build(f"y ~ {arg}", df, sv=case["s"])
            if not np.array_equal(np.asarray(dm.common[arg], dtype=float).reshape(-1), (df[case["col"]] == case["s"]).to_numpy(dtype=float)):
                problems.append(("binary-training", "values", f"{arg} with sv={case['s']!r}: wrong column"))
        except Exception as e:
            problems.append(("binary-training", exc_sig(e), f"{arg} raised {type(e).__name__}: {e}"))
    elif k == "kwdata":
        arg, col, eq = case["arg"], case["col"], case["eq"]

        def val(d):
            return d[col].to_numpy(dtype=float) if eq is None else (d[col] == eq).to_numpy(dtype=float)

        acc.calls += 1
        try:
            dm = build(f"y ~ x + {arg}", df)
            got = np.asarray(dm.common[arg], dtype=float).reshape(-1)
            if got.shape != (len(df),) or not np.array_equal(got, val(df)):
                problems.append(("keyword-data-training", "values", f"{arg}: training column is not the pointwise value"))
            col_on_new(dm, arg, val, "keyword-data-prediction")
        except Exception as ex:
            problems.append(("keyword-data-training", exc_sig(ex), f"{arg} raised {type(ex).__name__}: {ex}"))
    elif k == "offset":
        e = case["e"]
        arg = f"offset({e})"

        def val(d):
            if case["kind"] == "const":
                return np.full(len(d), float(e))
            return np.asarray(eval(e, {"np": np}, {c: d[c] for c in d.columns}), dtype=float)

        acc.calls += 1
        try:
            dm = build(f"y ~ x + {arg}", df)
            name = [n for n in dm.common.terms if n.startswith("offset(")][0]
            got = np.asarray(dm.common[name], dtype=float).reshape(-1)
            if got.shape != (len(df),) or not np.allclose(got, val(df), rtol=1e-15, atol=0):
                problems.append(("offset-training", "values", f"{arg}: training column is not the value unchanged / broadcast"))
            col_on_new(dm, name, val, "offset-prediction")
            try:
                build(f"{arg} ~ x", df)
                problems.append(("offset-training", "accepted", f"{arg} was accepted as a response"))
            except Exception:
                pass
        except Exception as ex:
            problems.append(("offset-training", exc_sig(ex), f"{arg} raised {type(ex).__name__}: {ex}"))
    elif k == "prop":
        tr = case["tr"]
        arg = f"{case['fn']}(s, {tr})"
        texpr = tr.split("=")[-1]

        def trials(d):
            v = eval(texpr, {}, {c: d[c] for c in d.columns})
            return np.full(len(d), float(v)) if np.isscalar(v) else np.asarray(v, dtype=float)

        acc.calls += 1
        try:
            dm = build(f"{arg} ~ x", df)
            M = np.asarray(dm.response.design_matrix, dtype=float)
            if M.shape != (len(df), 2) or not np.array_equal(M[:, 0], df["s"].to_numpy(dtype=float)) or not np.array_equal(M[:, 1], trials(df)):
                problems.append(("prop-training", "values", f"{arg}: response is not [successes, trials]"))
            evaluated_new = True
            for idx, nd in newframes(df):
                acc.calls += 1
                acc.traces += 1
                try:
                    raw = dm.response.evaluate_new_data(nd)
                    got = np.array(raw, dtype=float).reshape(-1)
                    if isinstance(raw, np.ndarray) and raw.flags.writeable:
                        raw[...] = -1  # the reported trials are the caller's: overwriting them must not reach any later report
                except Exception as e:
                    problems.append(("prop-prediction", exc_sig(e), f"{arg}: response.evaluate_new_data on rows {idx} raised {type(e).__name__}: {e}"))
                    break
                if got.shape != (len(nd),) or not np.array_equal(got, trials(nd)):
                    problems.append(("prop-prediction", "values", f"{arg}: trials reported for rows {idx} are {got[:5].tolist()}, expected {trials(nd)[:5].tolist()}"))
                    break
        except Exception as e:
            problems.append(("prop-training", exc_sig(e), f"{arg} raised {type(e).__name__}: {e}"))
    elif k == "prop-invalid":
        arg = f"prop({case['succ']}, {case['tr']})"
        acc.calls += 1
        try:
            build(f"{arg} ~ x", df)
            problems.append(("prop-validation", "accepted", f"{arg} was accepted"))
        except Exception:
            pass
    elif k == "identity":
        e = case["e"]
        val = lambda d: np.asarray(eval(e, {"np": np}, {c: d[c] for c in d.columns}), dtype=float)  # noqa: E731
        for arg in (f"I({e})", "{" + e + "}"):
            acc.calls += 1
            try:
                dm = build(f"y ~ {arg}", df)
                name = [n_ for n_ in dm.common.terms if n_.startswith("I(")][0]
                got = np.asarray(dm.common[name], dtype=float).reshape(-1)
                if not np.allclose(got, val(df), rtol=1e-15, atol=0):
                    problems.append(("identity", "values", f"{arg} is not the value of the expression"))
                col_on_new(dm, name, val, "identity-prediction")
            except Exception as ex:
                problems.append(("identity", exc_sig(ex), f"{arg} raised {type(ex).__name__}: {ex}"))
    elif k == "alias":
        acc.calls += 2
        try:
            da, db = build(case["a"], df), build(case["b"], df)
        except Exception as e:
            problems.append(("alias", exc_sig(e), f"{case['a']!r} / {case['b']!r} raised {type(e).__name__}: {e}"))
            da = None
        if da is not None:
            for nm in ("response", "common", "group"):
                A, B = getattr(da, nm), getattr(db, nm)
                if (A is None) != (B is None):
                    problems.append(("alias", "structure", f"{case['a']!r} vs {case['b']!r}: {nm} present/absent differs"))
                    continue
                if A is None:
                    continue
                if not np.array_equal(np.asarray(A.design_matrix, dtype=float), np.asarray(B.design_matrix, dtype=float)):
                    problems.append(("alias", "values", f"{case['a']!r} and {case['b']!r} give different {nm} matrices"))
                if nm == "common":
                    na_ = "I(" + case["na"][1:-1] + ")" if case["na"].startswith("{") else case["na"]
                    la = [c.replace(na_ + "[", "@[") if "[" in c else c.replace(na_, "@") for c in A.as_dataframe().columns]
                    lb = [c.replace(case["nb"] + "[", "@[") if "[" in c else c.replace(case["nb"], "@") for c in B.as_dataframe().columns]
                    if la != lb:
                        problems.append(("alias", "labels", f"{case['a']!r} and {case['b']!r} label their columns differently: {la} vs {lb}"))
                if nm == "response":
                    continue
                evaluated_new = True
                for idx, nd in newframes(df):
                    acc.calls += 2
                    acc.traces += 1
                    ra = rb = None
                    try:
                        ra = np.asarray(A.evaluate_new_data(nd).design_matrix, dtype=float)
                    except Exception as e:
                        ra = type(e).__name__
                    try:
                        rb = np.asarray(B.evaluate_new_data(nd).design_matrix, dtype=float)
                    except Exception as e:
                        rb = type(e).__name__
                    same = (isinstance(ra, str) and ra == rb) or (isinstance(ra, np.ndarray) and isinstance(rb, np.ndarray) and ra.shape == rb.shape and np.array_equal(ra, rb, equal_nan=True))
                    if not same:
                        problems.append(("alias", "new-data", f"{case['a']!r} and {case['b']!r} behave differently on the new frame of rows {idx}"))
                        break
    if problems:
        acc.case(case, "MISMATCH", sample=False)
        seen = set()
        for clause, sig, msg in problems:
            if (clause, sig) not in seen:
                seen.add((clause, sig))
                acc.violation(clause, sig, case, msg)
    else:
        acc.case(case, "ok", nontrivial=evaluated_new)


def classify(case, clause, sig, detail):
    k = case.get("k")
    if k == "binary":
        return "binary-success-omitted" if case["s"] is None else "binary-success-given"
    if k == "prop":
        tr = case["tr"]
        if "=" in tr:
            return "prop-trials-keyword"
        if tr in ("n", "9"):
            return "prop-trials-plain"
        return "prop-trials-expression"
    if k == "alias":
        return "alias-binary" if "binary" in case["b"] else "alias"
    return "-"


def snippet(case):
    return f"# fmc.checks.c16 case {case!r}"

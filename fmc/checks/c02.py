"""C02 - term algebra = Wilkinson-Rogers / lme4 set semantics (see DESIGN.md section 3, C02)."""
from fmc.refmodel import algebra as A

ID = "C02"
RULE = (
    "every operator tree (all shapes, operators + - : * / and **n wrappers, all atom choices over "
    "{a,b,c,f(x),f(x, 2)}) up to the leaf bound, every group stratum (E|G) and every placement of the "
    "intercept literals 0/1/-1 at additive positions is rendered to a formula, run through "
    "model_description and compared with the frozenset reference model; a case is non-trivial when the "
    "formula contains at least one operator other than + and the implementation returned a model"
    '  Added strata: keyword-call atoms f(x, p=2) / f(x, p=3); variables named Intercept / NegatedIntercept on '
    'both sides of |; two spellings of one interaction in a union; for every tree of <= 3 leaves the '
    'description is the same before and after design_matrices on the same text. '
    'Later: equal-valued literals (1 / True / 1.0), literals written twice, group items among the '
    'intercept-literal placements, sums of 6-16 items as operands, powers of long sums, no factor twice in a '
    'term, the list handed out by .terms. '
)
ASSUMPTIONS = [
    "reference algebra (fmc/refmodel/algebra.py) is the documented definition; pinned by fmc selftest",
    "term order, factor order and multiplicity of terms equal as factor sets are not demanded",
]

ATOMS5 = ["a", "b", "c", "f(x)", "f(x, 2)"]
OPS = ["+", "-", ":", "*", "/"]
_CASES = []


def tup(x):
    return tuple(tup(i) for i in x) if isinstance(x, list) else x


def _chain(items):
    """items: list of (op, node); left-nested additive chain."""
    node = items[0][1]
    for op, n in items[1:]:
        node = (op, node, n)
    return node


def gen_cases(tier):
    cases = []
    add = cases.append
    # (1) operator trees
    maxl = 4
    for n in range(1, maxl + 1):
        for t in A.trees(n, ATOMS5, OPS):
            add(("core", True, t))
    if tier == "thorough":
        for t in A.trees(5, ["a", "b", "f(x, 2)"], OPS):
            add(("core", True, t))
    else:  # five leaves over two atoms and the three operators that create and remove repeated terms
        for t in A.trees(5, ["a", "f(x, 2)"], ["*", "-", ":"]):
            add(("core", True, t))
    # power wrappers: (tree)**n at the root and as the left/right operand of one more operator
    pw_leaves = 3 if tier == "quick" else 4
    atoms_pw = ["a", "b", "f(x, 2)"]
    for n in range(1, pw_leaves + 1):
        for t in A.trees(n, atoms_pw, ["+", ":", "*", "-"] if tier == "quick" else OPS):
            for p in (2, 3):
                w = ("**", t, p)
                add(("core", True, w))
                for op in OPS:
                    add(("core", True, (op, w, ("a", "c"))))
                    add(("core", True, (op, ("a", "c"), w)))
    add(("ext", True, ("**", ("+", ("a", "a"), ("a", "b")), 1)))
    # call atoms written with keyword arguments: equal texts are one factor, other keyword values another one
    atoms_kw = ["a", "f(x, p=2)", "f(x, p=3)", "f(x, 2)"]
    for n in range(1, 4):
        for t in A.trees(n, atoms_kw, OPS):
            add(("core", True, t))
    for g in ("g", "f(h, p=2)"):
        for e1 in ("f(x, p=2)", "f(x, p=3)"):
            for e2 in ("f(x, p=2)", "f(x, p=3)", "x"):
                add(("core", True, ("+", ("|", ("a", e1), ("a", g)), ("|", ("a", e2), ("a", g)))))
                add(("core", True, ("-", ("+", ("|", ("a", e1), ("a", g)), ("|", ("a", e2), ("a", g))), ("|", ("a", e1), ("a", g)))))
    # literals that are equal as Python values but not the same literal: f(x, 1) / f(x, True) / f(x, 1.0), k=0 / k=False
    for lit_atom in ("f(x, 'mid')", "f(x, k=\"two words\")", "f(x, 20.5)", "f(x, k=1000000)", "f(x, None)"):  # one call written twice is one factor, whatever literal it holds
        for other in ("a", lit_atom):
            add(("core", True, ("-", ("*", ("a", lit_atom), ("a", "b")), (":", ("a", lit_atom), ("a", "b")))))
            add(("core", True, (":", ("a", lit_atom), ("a", other))))
            add(("core", True, ("+", ("+", ("a", lit_atom), ("a", other)), ("a", lit_atom))))
            add(("core", True, ("-", ("+", ("a", "a"), ("|", ("a", lit_atom), ("a", "g"))), ("|", ("a", lit_atom), ("a", "g")))))
    lits_eq = ["f(x, 1)", "f(x, True)", "f(x, 1.0)", "f(x, k=0)", "f(x, k=False)"]
    for n in range(1, 4):
        for t in A.trees(n, lits_eq if n < 3 else lits_eq[:2] + lits_eq[3:], OPS):
            add(("core", True, t))
    for a1 in lits_eq:
        for a2 in lits_eq:
            if a1 != a2:
                add(("core", True, ("**", ("+", ("a", a1), ("a", a2)), 2)))
                add(("core", True, ("+", ("|", ("a", a1), ("a", "g")), ("|", ("a", a2), ("a", "g")))))
    # long operands: sums of 6-16 items (plain variables, interactions, group terms) as the right / left operand of every
    # operator, and powers of long sums (dozens of interactions)
    def vs(n, start=1):
        return [("a", f"v{i}") for i in range(start, start + n)]

    def chain_of(items):
        return _chain([("+", it) for it in items])

    for n in (6, 9, 10, 12, 16):
        plain = vs(n)
        mixed = list(plain)
        for j in range(1, n, 3):
            mixed[j] = ("|", plain[j], ("a", "g"))
        for j in range(2, n, 4):
            mixed[j] = (":", plain[j], ("a", "b"))
        L = ("+", ("a", "a"), ("|", ("a", "x"), ("a", "h")))
        for R in (chain_of(plain), chain_of(mixed)):
            add(("core", True, ("+", L, R)))
            add(("core", True, ("+", R, L)))
            add(("core", True, R))
            add(("core", True, ("-", ("+", L, R), R)))
            add(("core", True, ("-", ("+", R, L), chain_of(vs(n // 2, 2)))))
        add(("core", True, (":", ("a", "a"), chain_of(plain))))
        add(("core", True, ("*", chain_of(plain), ("a", "b"))))
        add(("core", True, ("/", ("a", "a"), chain_of(plain))))
        add(("core", True, ("|", chain_of(plain), ("a", "g"))))
        add(("core", True, ("|", ("a", "x"), chain_of(vs(min(n, 9))))))
    for n, p_ in ((9, 2), (12, 2), (6, 3), (7, 3), (5, 4)):
        add(("core", True, ("**", chain_of(vs(n)), p_)))
        add(("core", True, ("+", ("a", "a"), ("**", chain_of(vs(n)), p_))))
    # variables that carry the names the library gives to its own intercept terms are ordinary factors
    odd = ["Intercept", "NegatedIntercept", "a"]
    for n in range(1, 4):
        for t in A.trees(n, odd, OPS):
            add(("core", True, t))
    for gfac in (("a", "g"), ("+", ("a", "g"), ("a", "h")), (":", ("a", "g"), ("a", "Intercept"))):
        for n in (1, 2, 3):
            for e in A.trees(n, ["Intercept", "x"] if n == 3 else ["Intercept", "NegatedIntercept", "x"], ["+", ":", "*"]):
                for pre in (None, "0", "1"):
                    eff = e if pre is None else ("+", ("lit", pre), e)
                    add(("core", True, ("|", eff, gfac)))
                    add(("core", True, ("+", ("a", "Intercept"), ("|", eff, gfac))))
    # flat (unparenthesised) operator chains: the documented precedence and left-associativity decide the tree
    import itertools as _it
    from fmc.refmodel import grammar as _G

    for k in (1, 2, 3):
        atoms_f = ATOMS5 if k < 3 else ["a", "b", "c", "f(x, 2)"]
        for ops in _it.product(OPS, repeat=k):
            for ats in _it.product(atoms_f, repeat=k + 1):
                text = ats[0] + "".join(f" {o} {a}" for o, a in zip(ops, ats[1:]))
                add(("flat", True, text))
    # (2) group strata
    e_atoms = ["x", "f(x, 2)", "a"]
    g_atoms = ["g", "h"]
    E = [t for n in (1, 2) for t in A.trees(n, e_atoms, ["+", ":", "*", "/"])]
    G = [t for n in (1, 2) for t in A.trees(n, g_atoms, ["+", ":", "/", "*"])]
    prefixes = [None, "0", "1", "-1"]
    groups = []
    for g in G:
        for pre in prefixes:
            groups.append(("|", ("lit", pre), g) if pre in ("1",) else None)
            for e in E:
                eff = e if pre is None else ("+", ("lit", pre), e)
                groups.append(("|", eff, g))
        groups.append(("|", ("lit", "1"), g))
    groups = [g for g in groups if g is not None]
    seen = set()
    groups = [g for g in groups if not (g in seen or seen.add(g))]
    for g in groups:
        add(("core", True, g))  # alone:  y ~ (E|G)
        add(("core", True, ("+", ("a", "a"), g)))  # after a common item
        add(("core", True, ("+", g, ("a", "a"))))  # before
        add(("core", True, ("+", ("+", ("a", "a"), g), ("a", "b"))))  # between
        add(("core", True, ("-", ("+", ("a", "a"), g), g)))  # removed again
        add(("core", False, g))  # no response
    few = groups[:: max(1, len(groups) // (40 if tier == "quick" else 120))]
    for g1 in few:
        for g2 in few:
            add(("core", True, ("+", g1, g2)))
            add(("core", True, ("-", ("+", g1, g2), g1)))
    # one group term reached through two spellings of an interaction
    gh, hg = (":", ("a", "g"), ("a", "h")), (":", ("a", "h"), ("a", "g"))
    xz, zx = (":", ("a", "x"), ("a", "a")), (":", ("a", "a"), ("a", "x"))
    for e1 in (("a", "x"), xz, ("+", ("lit", "0"), ("a", "x"))):
        for e2 in (("a", "a"), zx, ("*", ("a", "x"), ("a", "a"))):
            for f1, f2 in ((gh, hg), (gh, gh), (("a", "g"), ("a", "g"))):
                add(("core", True, ("+", ("|", e1, f1), ("|", e2, f2))))
                add(("core", True, ("-", ("+", ("|", e1, f1), ("|", e2, f2)), ("|", e2, f1))))
    # non-leading / repeated literals on the effect side, other operations on group terms: reject or agree
    for g in G[:3]:
        for e in E:
            for lit in ("0", "1"):
                add(("ext", True, ("|", ("+", e, ("lit", lit)), g)))
                add(("ext", True, ("|", ("-", e, ("lit", lit)), g)))
                add(("ext", True, ("|", ("+", ("+", ("lit", "0"), e), ("lit", "1")), g)))
                add(("ext", True, ("|", ("+", ("+", ("lit", "1"), e), ("lit", "0")), g)))
        add(("ext", True, ("|", ("lit", "0"), g)))
        add(("ext", True, ("|", ("lit", "-1"), g)))
    # (3) intercept literals at every additive position of the right-hand side
    items = [("a", "a"), ("a", "b"), (":", ("a", "a"), ("a", "b")), ("a", "f(x, 2)"), ("|", ("a", "x"), ("a", "g")), ("|", ("+", ("lit", "0"), ("a", "x")), (":", ("a", "g"), ("a", "h")))]
    lits = ["0", "1", "-1"]
    base_chains = [[i] for i in items] + [[i, j] for i in items for j in items if i != j]
    if tier == "thorough":
        base_chains += [[i, j, k] for i in items for j in items for k in items if len({i, j, k}) == 3]
    for chain in base_chains:
        n = len(chain)
        for resp in (True, False):
            # one literal at position p (0 = leading) with + ; "- 1" at non-leading positions
            for p in range(n + 1):
                for lit in lits:
                    its = [("+", c) for c in chain]
                    its.insert(p, ("+", ("lit", lit)))
                    if p > 0 and lit == "-1":
                        its[p] = ("-", ("lit", "1"))
                    add(("core", resp, _chain(its)))
                    # two literals: position p and the end / the start
                    for lit2 in lits:
                        its2 = list(its)
                        its2.append(("-", ("lit", "1")) if lit2 == "-1" else ("+", ("lit", lit2)))
                        add(("core", resp, _chain(its2)))
                        if lit2 != "-1" or True:
                            its3 = [("+", ("lit", lit2))] + list(its)
                            if its3[1][1] == ("lit", "-1"):
                                its3[1] = ("-", ("lit", "1"))
                            add(("core", resp, _chain(its3)))
            # "+ -1" and "- 0" spelled literally: reject or agree
            its = [("+", c) for c in chain] + [("+", ("lit", "-1"))]
            add(("ext", resp, _chain(its)))
            its = [("+", c) for c in chain] + [("-", ("lit", "0"))]
            add(("ext", resp, _chain(its)))
    # literal-only right-hand sides
    for l1 in lits:
        add(("core", True, ("lit", l1)))
        for l2 in ("0", "1"):
            add(("core", True, ("+", ("lit", l1), ("lit", l2))))
            add(("core", True, ("-", ("lit", l1), ("lit", "1"))))
    seen = set()
    out = []
    for c in cases:
        if c not in seen:
            seen.add(c)
            out.append(c)
    return out


def prepare(tier, seed):
    global _CASES
    _CASES = gen_cases(tier)


def units(tier, seed):
    n = len(_CASES)
    step = max(500, n // 256 + 1)
    return [(i, min(n, i + step)) for i in range(0, n, step)]


def expand(unit):
    for c in _CASES[unit[0] : unit[1]]:
        yield [c[0], c[1], c[2]]


def flat_ast(text):
    """Algebra tree of an unparenthesised chain under the documented precedence (reference grammar)."""
    from fmc.refmodel import grammar as G

    back = {}
    for i, a in enumerate(sorted(ATOMS5, key=len, reverse=True)):
        if "(" in a:
            ph = f"callatom{i}"
            back[ph] = a
            text = text.replace(a, ph)

    def conv(n):
        if n[0] == "atom":
            return ("a", back.get(n[1], n[1]))
        if n[0] == "bin":
            return (n[1], conv(n[2]), conv(n[3]))
        if n[0] == "grp":
            return conv(n[1])
        raise ValueError(n)

    return conv(G.parse(G.tokenize(text)))


def formula_of(case):
    stratum, resp, ast = case[0], case[1], tup(case[2])
    if stratum == "flat":
        return ("y ~ " if resp else "") + ast
    return ("y ~ " if resp else "") + A.render(ast)


def observe(formula, mutate=False, md=None):
    from formulae import model_description
    from formulae.terms import Intercept, Term, NegatedIntercept

    md = model_description(formula) if md is None else md
    resp = md.response.term.name if md.response is not None else None
    terms, icpt, junk = [], False, []
    for t in md.common_terms:
        if isinstance(t, Intercept):
            icpt = True
        elif isinstance(t, Term):
            terms.append(tuple(str(c.name) for c in t.components))
        else:
            junk.append(type(t).__name__)
    groups = []
    for t in md.group_terms:
        e = "1" if isinstance(t.expr, Intercept) else tuple(str(c.name) for c in t.expr.components)
        groups.append((e, tuple(str(c.name) for c in t.factor.components)))
    set(md.terms)  # forces every __hash__ on the path (Model.__eq__ does the same)
    if mutate:  # the list handed out by .terms belongs to the caller: emptying it leaves the description as it was
        handed = md.terms
        handed.reverse()
        del handed[:]
    return resp, terms, icpt, groups, junk


def leaves(ast):
    if ast[0] in ("a", "lit"):
        return 1
    return sum(leaves(ch) for ch in ast[1:] if isinstance(ch, tuple))


def f(x, p=1):
    return x**p


_FRAME = []


def build_on_frame(formula):
    import itertools
    import numpy as np
    import pandas as pd
    from formulae import design_matrices

    if not _FRAME:
        rows = list(itertools.product(["u", "v"], ["p", "q", "r"], ["m", "n"], [0, 1]))
        d = {"a": [r[0] for r in rows], "b": [r[1] for r in rows], "c": [r[2] for r in rows]}
        d["g"] = [f"g{(i * 5) % 4}" for i in range(len(rows))]
        d["h"] = [f"h{(i * 7) % 3}" for i in range(len(rows))]
        rng = np.random.default_rng(5)
        d["x"] = rng.normal(size=len(rows)).round(3)
        d["y"] = rng.normal(size=len(rows)).round(3)
        _FRAME.append(pd.DataFrame(d))
    try:
        design_matrices(formula, _FRAME[0])
        return "built"
    except Exception:
        return "not-built"


def has_nonadd(ast):
    if ast[0] in ("a", "lit"):
        return False
    if ast[0] in "+-" and len(ast) == 3:
        return has_nonadd(ast[1]) or has_nonadd(ast[2])
    return True


def check_case(case, acc):
    stratum, resp, ast = case[0], case[1], tup(case[2])
    formula = formula_of(case)
    if stratum == "flat":
        ast = flat_ast(ast)
    try:
        rterms, ricpt, rgroups = A.model_of(ast)
    except A.Degenerate:
        acc.case(formula, "degenerate-not-compared")
        return
    acc.calls += 2
    acc.traces += 1
    try:
        obs = observe(formula)
    except Exception as e:
        from fmc.core import exc_sig

        if stratum == "ext":
            acc.case(formula, "ext-rejected")
            return
        acc.case(formula, "raises")
        acc.violation("core-accepts", exc_sig(e), case, f"{formula!r} raised {type(e).__name__}: {e}")
        return
    obs2 = observe(formula)
    if obs != obs2:
        acc.violation("deterministic", "mismatch", case, f"{formula!r}: two evaluations differ")
    r, terms, icpt, groups, junk = obs
    iterms = {frozenset(t) for t in terms}
    igroups = {(e if e == "1" else frozenset(e), frozenset(f)) for e, f in groups}
    problems = []
    aspects = []
    if junk:
        problems.append(f"leftover {junk} in common_terms")
        aspects.append("junk")
    if (r == "y") != bool(resp) or (r not in (None, "y")):
        problems.append(f"response {r!r}")
        aspects.append("response")
    if iterms != set(rterms):
        aspects.append("terms")
        problems.append(
            f"terms: got {sorted(map(sorted, iterms))} expected {sorted(map(sorted, rterms))}"
        )
    if icpt != ricpt:
        aspects.append("intercept")
        problems.append(f"intercept: got {icpt} expected {ricpt}")
    if igroups != set(rgroups):
        aspects.append("groups")
        problems.append(
            f"groups: got {sorted((sorted(e), sorted(f)) for e, f in igroups)} expected "
            f"{sorted((sorted(e), sorted(f)) for e, f in rgroups)}"
        )
    if len(set(terms)) != len(terms) or len(set(groups)) != len(groups):
        problems.append("the same ordered term is listed twice")
        aspects.append("twice")
    if any(len(set(t)) != len(t) for t in terms) or any(e != "1" and len(set(e)) != len(e) for e, _ in groups) or any(len(set(f_)) != len(f_) for _, f_ in groups):
        problems.append(f"a term lists the same factor twice (repeated factors are collapsed): {[t for t in terms if len(set(t)) != len(t)] or groups}")
        aspects.append("repeated-factor")
    if not problems:
        from formulae import model_description as _md

        d = _md(formula)
        first = observe(formula, mutate=True, md=d)
        again = observe(formula, md=d)
        if first != again:
            problems.append("after the caller emptied the list it got from .terms the description itself changed")
            aspects.append("terms-list-aliased")
    if problems:
        acc.case(formula, "mismatch")
        acc.violation("expansion", "mismatch:" + "+".join(aspects), case, f"{formula!r}: " + "; ".join(problems))
        return
    # the description is a function of the text: a design built from the same text in between changes nothing
    if stratum != "flat" and leaves(ast) <= 3:
        built = build_on_frame(formula)
        acc.calls += 2
        acc.table("design_built_in_between", built)
        try:
            obs3 = observe(formula)
        except Exception as e:
            obs3 = f"raised {type(e).__name__}"
        if obs3 != obs:
            acc.case(formula, "mismatch-after-build")
            acc.violation("description-stable", "mismatch", case, f"{formula!r}: model_description gives {obs3} after design_matrices({built}) on the same text, {obs} before")
            return
    dup = len(iterms) != len(terms) or len(igroups) != len(groups)
    acc.case(formula, "ok-dup" if dup else "ok", nontrivial=has_nonadd(ast))


# ---------------------------------------------------------------------------------------------
# structural classes of violating inputs (KNOWN_FINDINGS matching)


def _nodes(ast):
    yield ast
    if ast[0] not in ("a", "lit"):
        for ch in ast[1:]:
            if isinstance(ch, tuple):
                yield from _nodes(ch)


def _chain_items(n):
    """Items of a left-nested additive chain, first item first."""
    if n[0] in "+-" and len(n) == 3:
        return _chain_items(n[1]) + [n[2]]
    return [n]


def classify(case, clause, sig, detail):
    """Structural class of the input, computed from the case alone."""
    if case[0] == "flat":
        return "-"
    ast = tup(case[2])
    for n in _nodes(ast):
        if n[0] == "|":
            items = _chain_items(n[1])
            if any(i[0] == "lit" for i in items[1:]):
                return "effect-side-literal-after-first-item"
    return "-"


def snippet(case):
    return f"from formulae import model_description\nprint(model_description({formula_of(case)!r}))"

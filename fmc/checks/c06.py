"""C06 - evaluating new data reproduces the training encoding (DESIGN.md 3, C06)."""
import itertools
import re

import numpy as np
import pandas as pd

ID = "C06"
RULE = (
    "every formula of the generated pool (each stateful transform alone, nested two deep, interacting with a "
    "factor and with each other; C/T/S with and without levels=/reference; ordered categoricals; a user-registered "
    "transform; group-specific terms with transformed effects and composite factors) on two dtype variants of an "
    "8-row training frame D; new frames: all row sequences of D of length <= 2 (<= 3 thorough), every leave-one-"
    "level-out subset, D, reversed D, every row three times; evaluate_new_data(D[idx]) must equal training[idx] for "
    "the common and the group matrix.  A case is one (formula, variant); non-trivial when the formula has a stateful "
    "transform or a categorical"
    '  Added: new frames that keep their labels, categoricals declaring only what occurs (evaluated '
    'consecutively), chained evaluations, a work frame refilled in place, helper terms with a stateful numeric '
    'part, an observation-level factor, integers beyond 2^53 compared exactly, 8-bit integer products. '
    'Later: 1120-row training frames, a covariate with ties, case-only differing values, the same text built '
    "on other data first, the caller's copies overwritten and its level lists reversed before a last "
    'evaluation. '
)
ASSUMPTIONS = [
    "tolerance rtol=1e-9, atol=1e-12 (vector/tail loops may differ in the last ulp)",
    "only pointwise calls and stateful transforms are in the pool (I(x - np.mean(x)) legitimately re-estimates)",
]

N = 8
_TIER = "quick"


def prepare(tier, seed):
    global _TIER
    _TIER = tier
    register()


def register():
    from formulae.transforms import register_stateful_transform, TRANSFORMS

    if "minmax" in TRANSFORMS:
        return

    @register_stateful_transform
    class MinMax:  # user-registered stateful transform
        __transform_name__ = "minmax"

        def __init__(self):
            self.params_set = False
            self.lo = self.hi = None

        def __call__(self, x):
            if not self.params_set:
                self.lo, self.hi = np.min(x), np.max(x)
                self.params_set = True
            return (x - self.lo) / (self.hi - self.lo)


def frame(variant):
    f = ["b", "c", "a", "b", "c", "a", "b", "a"]
    g = ["g2", "g1", "g1", "g2", "g2", "g1", "g1", "g2"]
    h = ["h1", "h1", "h2", "h2", "h1", "h2", "h1", "h2"]
    k = [30, 10, 20, 10, 30, 20, 10, 30]
    x = [1.5, 2.25, 4.0, 0.5, 3.75, 2.0, 5.5, 1.0]
    z = [10.0, 7.5, 3.0, 8.25, 1.5, 4.0, 6.5, 2.75]
    df = pd.DataFrame({"f": f, "g": g, "h": h, "k": k, "x": x, "z": z, "y": [0.1, 0.4, 0.2, 0.9, 0.5, 0.3, 0.8, 0.6]})
    df["o"] = pd.Categorical(df["f"], categories=["c", "a", "b"], ordered=True)
    df["xb"] = [3e7 + v for v in (0.25, -1.5, 0.75, 2.0, -0.5, 1.25, -2.25, 0.0)]  # level huge compared with the spread
    df["ib"] = np.array([2 ** 53 + 1 + 2 * i for i in (3, 0, 5, 1, 7, 2, 6, 4)], dtype="int64")  # integers a float64 cannot hold
    df["xt"] = [1.0, 2.0, 2.0, 3.0, 1.0, 3.0, 2.0, 0.0]  # tied values
    df["cs"] = ["no", "No", "yes", "no", "yes", "No", "yes", "no"]  # spellings that differ only in case are different values
    df["u"] = ["u5", "u2", "u8", "u1", "u7", "u3", "u6", "u4"]  # one observation per level, rows not in level order
    df["i8"] = np.array([100, -7, 25, 3, -120, 64, 9, 11], dtype="int8")
    df["j8"] = np.array([2, 19, -5, 40, 1, -2, 14, 11], dtype="int8")
    if variant == "large":
        df = pd.concat([df] * 140, ignore_index=True)
    if variant == "cat":
        df["f"] = pd.Categorical(df["f"], categories=["c", "b", "a"])
        df["g"] = pd.Categorical(df["g"], categories=["g2", "g1"], ordered=True)
        df["x"] = df["x"].astype("float32").astype("float64")
        df["k"] = df["k"].astype("int32")
    return df


NUMT = ["center(x)", "scale(x)", "standardize(x)", "bs(x, df=4)", "bs(x, df=3, degree=2)", "bs(x, knots=kn)",
        "bs(x, df=5, intercept=True)", "poly(x, 2)", "poly(x, 3)", "poly(x, 2, raw=True)", "minmax(x)", "np.log(x)",
        "I(x ** 2)", "{x / z}"]
NEST = ["center(np.log(x))", "scale(center(x))", "np.exp(scale(x))", "bs(center(x), df=4)", "poly(scale(x), 2)",
        "center(scale(x) * z)", "scale(x - center(z))", "minmax(center(x))", "center(minmax(x))", "scale(np.sqrt(x) + z)",
        "np.log(minmax(x) + 1)", "poly(center(x), 2)", "bs(np.log(x), df=3)", "scale(scale(x))", "center(center(z) + x)"]
CATT = ["f", "C(f)", "C(f, Sum)", "C(f, Treatment('b'))", "T(f, 'c')", "S(f)", "S(f, 'a')", "C(k)", "T(k, 20)",
        "C(k, levels=lv)", "C(f, levels=flv)", "S(f, levels=flv)", "o", "C(o)", "C(o, Sum)", "g"]


def pool(tier):
    out = []
    for t in NUMT + NEST:
        out.append(f"y ~ {t}")
        out.append(f"y ~ 0 + {t}")
    for c in CATT:
        out.append(f"y ~ {c}")
        out.append(f"y ~ 0 + {c}")
        out.append(f"y ~ x + {c}:x")
    inter = [("scale(x)", "f"), ("f", "center(x)"), ("scale(x)", "center(z)"), ("bs(x, df=4)", "f"), ("poly(x, 2)", "g"),
             ("C(f, Sum)", "scale(z)"), ("o", "center(x)"), ("minmax(x)", "C(k)"), ("T(f, 'c')", "poly(z, 2)"),
             ("scale(x)", "scale(z)"), ("center(x)", "center(x)"), ("f", "g"), ("C(f)", "o"), ("S(f)", "g")]
    for a, b in inter:
        out.append(f"y ~ {a}:{b}")
        out.append(f"y ~ {a}*{b}")
        out.append(f"y ~ 0 + {a} + {a}:{b}")
    out += [
        "y ~ scale(x) + scale(z)",  # two call sites of one transform
        "y ~ scale(x) + center(x) + scale(x):f",
        "y ~ center(x) + (center(x) | g)",
        "y ~ (scale(x) | g)",
        "y ~ (0 + scale(x) | g)",
        "y ~ (center(x) + f | g)",
        "y ~ x + (x | g:h)",
        "y ~ (bs(x, df=3) | g)",
        "y ~ (0 + f | g)",
        "y ~ (f | g)",
        "y ~ (1 | C(k))",
        "y ~ (poly(x, 2) | h) + (1 | g)",
        "y ~ (scale(x) | g) + (scale(x) | h)",
        "y ~ (minmax(x) | g/h)",
        "y ~ (o | g)",
        "y ~ (C(f, Sum) | g)",
        "y ~ (0 + center(x):f | h)",
        "y ~ f*g*scale(x)",
        "y ~ f:g:h",
        "y ~ (0 + f | g + h) + (1 | h)", "y ~ (1 | g) + (0 + f | g + h)", "y ~ (f | g + h)", "y ~ (0 + f | g/h) + (1 | g)", "y ~ (0 + o | h + g) + (x | g)",
        "y ~ f/g", "y ~ (f + g):h + f", "y ~ f/x + (f | g)", "y ~ (f + g)*scale(x)",
        "y ~ (1 | g:h) + (0 + x | h:g)", "y ~ (x | g:h) + (0 + f | h:g)", "y ~ (1 | I(k):g)", "y ~ (x | np.floor(z))", "y ~ (0 + x | I(k)) + (1 | np.round(x))",
        "y ~ bs(xt, df=4)", "y ~ poly(xt, 2) + (0 + bs(xt, df=3) | g)", "y ~ scale(xt):f",
        "y ~ binary(cs) + x", "y ~ cs + (1 | cs)", "y ~ 0 + B(cs):x",
        "y ~ 0 + u", "y ~ x + (1 | u)", "y ~ (0 + x | u) + f",
        "y ~ 0 + ib", "y ~ 0 + ib + k", "y ~ 0 + C(k):ib", "y ~ 0 + k + (0 + ib | g)", "y ~ i8:j8", "y ~ 0 + i8 + i8:j8 + (0 + i8:j8 | g)", "y ~ i8*k",
        "y ~ I(f)", "y ~ 0 + up(f)", "y ~ up(f):x", "y ~ x + (x | up(g))", "y ~ (0 + I(f) | g)",
    ]
    # helper terms inserted for full rank whose numeric part is a stateful transform
    for t in ("center(x)", "scale(x)", "bs(x, df=3)", "poly(x, 2)", "minmax(x)", "scale(center(x))"):
        out += [f"y ~ {t} + g:h:{t}", f"y ~ g:h:{t}", f"y ~ 0 + f:g:{t}", f"y ~ f + f:g:{t}", f"y ~ 0 + h:{t}:g + ({t} | g)"]
    if tier == "thorough":
        for a in NUMT[:11]:
            for c in CATT:
                out.append(f"y ~ {a}:{c}")
                out.append(f"y ~ ({a} | g) + {c}")
        for a in NUMT[:11]:
            for b in NUMT[:11]:
                inner = re.sub(r"\bx\b", "z", b)
                out.append(f"y ~ {a} + {inner}")
    return list(dict.fromkeys(out))


def new_frames(tier):
    idxs = [[i] for i in range(N)]
    idxs += [list(p) for p in itertools.product(range(N), repeat=2)]
    if tier == "thorough":
        idxs += [list(p) for p in itertools.product(range(N), repeat=3)]
    df = frame("str")
    for col in ("f", "g", "h", "k"):
        for lvl in sorted(set(df[col])):
            idxs.append([i for i in range(N) if df[col][i] != lvl])
    idxs.append(list(range(N)))
    idxs.append(list(range(N))[::-1])
    idxs.append([i for i in range(N) for _ in range(3)])
    idxs.append([i for i in range(N) if i % 2 == 0])
    idxs.append([3, 3, 3, 3])
    return idxs


LARGE = ["y ~ f:g", "y ~ f*g", "y ~ 0 + g:bs(x, df=4)", "y ~ x + (0 + f:g | h)", "y ~ C(f, Sum):o + scale(x)", "y ~ poly(x, 2):f + (scale(x) | g)", "y ~ f + (x | g:h)", "y ~ (0 + f | g) + (1 | h)",
         "y ~ T(f, 'c'):S(g)", "y ~ o:g:x", "y ~ center(x) + g:h:center(x)", "y ~ bs(x, df=5, intercept=True):g + (1 | u)"]


def units(tier, seed):
    p = pool(tier)
    cases = [{"formula": f, "variant": v} for f in p for v in ("str", "cat")]
    cases += [{"formula": f, "variant": "large"} for f in LARGE]  # the same 8 rows 140 times over (1120 training rows)
    step = 4
    return [cases[i : i + step] for i in range(0, len(cases), step)]


def expand(unit):
    return unit


def build(formula, df, na_action="drop"):
    from formulae import design_matrices

    lv = [30, 10, 20]  # noqa: F841  (looked up by the formula)
    flv = ["b", "c", "a"]  # noqa: F841
    kn = [2.0, 3.0]  # noqa: F841
    xv = np.array([1.0, 2.5, 0.5, 4.0, 3.0, 2.0, 5.5, 1.5])[: len(df)]  # noqa: F841  arrays of the caller, not columns
    yv = np.array([0.2, 0.1, 0.7, 0.4, 0.9, 0.3, 0.8, 0.6])[: len(df)]  # noqa: F841

    def up(s):  # a user function returning strings: a categorical call without C()
        return s.str.upper()

    return design_matrices(formula, df, na_action=na_action)


def check_case(case, acc):
    from fmc.core import exc_sig

    f, variant = case["formula"], case["variant"]
    df = frame(variant)
    acc.calls += 1
    try:
        dm = build(f, df)
    except Exception as e:
        acc.case(case, "build-raises", sample=False)
        acc.violation("design-exists", exc_sig(e), case, f"{f!r} ({variant}) raised {type(e).__name__}: {e}")
        return
    mats = []
    exact = {}  # integer training matrices are also compared exactly (as Python integers)
    if dm.common is not None:
        mats.append(("common", dm.common, np.array(dm.common.design_matrix, dtype=float, copy=True)))
    if dm.group is not None:
        mats.append(("group", dm.group, np.array(dm.group.design_matrix, dtype=float, copy=True)))
    for which, M, _ in mats:
        raw = np.asarray(M.design_matrix)
        if raw.dtype.kind in "iu":
            exact[which] = [[int(v) for v in row] for row in raw.tolist()]
    problems = {}
    # not from the initial state: the same formula text builds another design on other data (other level sets and orders,
    # other numbers) before this one evaluates anything
    try:
        other = df.iloc[::-1].reset_index(drop=True).copy()
        for c_ in ("f", "g", "h", "cs", "u"):
            other[c_] = [{"a": "zb", "b": "a", "c": "b"}.get(v, str(v) + "_") for v in other[c_].astype(str)]
        other["k"] = other["k"] * 3 + 1
        for c_ in ("x", "z", "xb", "xt"):
            other[c_] = other[c_] * 2.5 + 10
        acc.calls += 1
        build(f, other)
    except Exception:
        pass
    nframes = 0
    variants = []
    tail = []
    for idx in new_frames(_TIER):
        variants.append((idx, df.iloc[idx].reset_index(drop=True)))
        if len(idx) <= 2 or len(idx) >= N:
            variants.append((idx, df.iloc[idx]))  # the rows keep their labels (not 0..n-1, repeated for repeated rows)
        if variant == "cat" and len(idx) <= 2:
            nd2 = df.iloc[idx].reset_index(drop=True)
            for col in ("f", "g", "o"):  # categoricals that only declare what occurs: other category sets (and codes) from frame to frame
                nd2[col] = nd2[col].cat.remove_unused_categories()
            tail.append((idx, nd2))  # evaluated one after the other: same number of categories, other members
    for idx, nd in variants + tail:
        nframes += 1
        for which, M, train in mats:
            acc.calls += 1
            acc.traces += 1
            try:
                raw = np.asarray(M.evaluate_new_data(nd).design_matrix)
                got = np.asarray(raw, dtype=float)
            except Exception as e:
                problems.setdefault(("rows-reproduced", exc_sig(e)), f"{f!r} ({variant}): {which}.evaluate_new_data on rows {idx} raised {type(e).__name__}: {e}")
                continue
            if which in exact and got.shape == train[idx].shape:
                ints = [[int(v) for v in row] for row in raw.tolist()]
                if ints != [exact[which][i] for i in idx]:
                    problems.setdefault(("rows-reproduced", "integers"), f"{f!r} ({variant}): {which} on rows {idx}: the integer training matrix is not reproduced exactly (e.g. {ints[0][:3]} vs {exact[which][idx[0]][:3]})")
            want = train[idx]
            if got.shape != want.shape:
                problems.setdefault(("rows-reproduced", "shape"), f"{f!r} ({variant}): {which} on rows {idx} has shape {got.shape}, training rows have {want.shape}")
            elif not np.allclose(got, want, rtol=1e-9, atol=1e-12, equal_nan=True):
                j = int(np.argmax(np.abs(got - want).max(axis=0)))
                problems.setdefault(("rows-reproduced", "values"), f"{f!r} ({variant}): {which} on rows {idx} differs from the training rows (column {j}: {got[:, j][:3]} vs {want[:, j][:3]})")
    # one work frame refilled in place with successive chunks of training rows (same object, other contents)
    work = df.iloc[[0, 1]].reset_index(drop=True)
    for idx in ([0, 1], [5, 2], [7, 7], [3, 4], [5, 2]):
        for col in work.columns:
            work[col] = df[col].iloc[idx].values
        for which, M, train in mats:
            acc.calls += 1
            try:
                got = np.asarray(M.evaluate_new_data(work).design_matrix, dtype=float)
            except Exception as e:
                problems.setdefault(("rows-reproduced", "refilled-" + exc_sig(e)), f"{f!r} ({variant}): {which} on a work frame refilled in place with rows {idx} raised {type(e).__name__}: {e}")
                continue
            if got.shape != train[idx].shape or not np.allclose(got, train[idx], rtol=1e-9, atol=1e-12, equal_nan=True):
                problems.setdefault(("rows-reproduced", "refilled"), f"{f!r} ({variant}): {which} on a work frame refilled in place with rows {idx} differs from the training rows")
    # chained: the object returned for one frame evaluates another frame
    for which, M, train in mats:
        for idx1, idx2 in (([0, 3], [5, 1, 1]), ([2], list(range(N))), (list(range(N))[::-1], [4])):
            acc.calls += 2
            try:
                mid = M.evaluate_new_data(df.iloc[idx1].reset_index(drop=True))
                got = np.asarray(mid.evaluate_new_data(df.iloc[idx2].reset_index(drop=True)).design_matrix, dtype=float)
            except Exception as e:
                problems.setdefault(("rows-reproduced", "chained-" + exc_sig(e)), f"{f!r} ({variant}): {which} evaluated on rows {idx1}, then that result on rows {idx2}, raised {type(e).__name__}: {e}")
                continue
            if got.shape != train[idx2].shape or not np.allclose(got, train[idx2], rtol=1e-9, atol=1e-12, equal_nan=True):
                problems.setdefault(("rows-reproduced", "chained"), f"{f!r} ({variant}): {which} evaluated on rows {idx1}, then that result on rows {idx2}, differs from the training rows")
    # what the design hands out belongs to the caller: the copy made by np.array(matrix), the data-frame view and the lists of
    # levels may be overwritten / reordered without any effect on the design
    for which, M, train in mats:
        acc.calls += 1
        try:
            A = np.array(M)
            if A.flags.writeable:
                A[...] = -3
            if which == "common":
                view = M.as_dataframe()
                view.iloc[:, :] = view.to_numpy() * 0 - 7
            for t in M.terms.values():
                for obj in (getattr(t, "levels", None), getattr(getattr(t, "factor", None), "levels", None), getattr(getattr(t, "expr", None), "levels", None), getattr(t, "groups", None) if False else None):
                    if isinstance(obj, list) and len(obj) > 1:
                        obj.reverse()
            got = np.asarray(M.evaluate_new_data(df).design_matrix, dtype=float)
            if got.shape != train.shape or not np.allclose(got, train, rtol=1e-9, atol=1e-12, equal_nan=True):
                problems.setdefault(("rows-reproduced", "after-caller-edits"), f"{f!r} ({variant}): after the caller overwrote its copy np.array({which}), the data-frame view and reversed the lists of levels it was handed, {which}.evaluate_new_data on the training frame differs from the training rows")
        except Exception as e:
            problems.setdefault(("rows-reproduced", "after-caller-edits-" + exc_sig(e)), f"{f!r} ({variant}): editing what the design handed out / evaluating afterwards raised {type(e).__name__}: {e}")
    for which, M, train in mats:
        if not np.array_equal(np.asarray(M.design_matrix, dtype=float), train, equal_nan=True):
            problems.setdefault(("training-unchanged", "values"), f"{f!r} ({variant}): training {which} matrix changed after evaluating new data (or after the caller edited its own copies)")
    acc.subcases(case, nframes - 1, True, "new-frames")
    nontriv = any(t in f for t in ("center", "scale", "standardize", "bs(", "poly", "minmax", "C(", "T(", "S(", "f", "o", "g"))
    if problems:
        acc.case(case, "MISMATCH", sample=False)
        for (clause, sig), msg in problems.items():
            acc.violation(clause, sig, case, msg)
    else:
        acc.case(case, "ok", nontrivial=nontriv)


def classify(case, clause, sig, detail):
    f = case["formula"]
    if "levels=" in f:
        return "explicit-levels-argument"
    if "C(o" in f:
        return "C-of-ordered-categorical"
    return "-"


def snippet(case):
    return f"from fmc.checks import c06\ndf = c06.frame({case['variant']!r})\ndm = c06.build({case['formula']!r}, df)\nprint(dm.common.evaluate_new_data(df.iloc[[0]]).design_matrix, dm.common.design_matrix[[0]])"

"""C09 - missing-value policy: drop / error / pass (DESIGN.md 3, C09)."""
import itertools

import numpy as np
import pandas as pd

ID = "C09"
RULE = (
    "for every formula of the pool (bare variables, call arguments, keyword arguments, nested calls, operators "
    "inside I()/{}, back-quoted names, interactions, effect and factor of group terms, responses incl. calls, "
    "y[level] and prop) every missingness pattern with one missing cell and every pattern with two missing cells in "
    "rows 0-3 over the used columns plus three unused columns (one of them named like a keyword argument): "
    "na_action='drop' must equal the design built on the clean frame without exactly the rows that miss a used "
    "variable; 'error' raises ValueError iff such a row exists; 'pass' (pointwise numeric formulas) keeps all rows, "
    "complete rows as under drop, NaN in exactly the columns derived from the missing variable; other na_action "
    "values are refused.  A case is one (formula, pattern); non-trivial: the pattern hits a used column"
    '  Added markers: duplicated index labels, nullable Float64 / Int64 / Int32 / UInt8 / Int16 columns (pd.NA), '
    'ordered categoricals with unobserved categories, 300-row frames with one incomplete row; formulas that '
    'add and subtract a term; histories of an unrelated design before the case. '
    'Later: 1500-row frames with the incomplete row near the end, a frame holding exactly the used columns '
    '(never touched). '
)
ASSUMPTIONS = ["the set of used variables per formula is written down by hand in the check (not computed from the library)",
               "'pass' is only checked for plain numeric variables and pointwise calls"]

# formula, used columns, pointwise-numeric (pass clause applies), {column: terms derived from it} is computed from slices by name
POOL = [
    ("y ~ x", ["y", "x"], True),
    ("y ~ x + z", ["y", "x", "z"], True),
    ("y ~ np.log(x)", ["y", "x"], True),
    ("y ~ I(x + z) + w", ["y", "x", "z", "w"], True),
    ("y ~ addk(x, k=z)", ["y", "x", "z"], True),
    ("y ~ addk(x, k=2) + np.exp(np.log(z) + w)", ["y", "x", "z", "w"], True),
    ("y ~ {x / w} + I(x * z - w)", ["y", "x", "z", "w"], True),
    ("y ~ `my col`", ["y", "my col"], True),
    ("y ~ np.log(`my col`) + x", ["y", "my col", "x"], True),
    ("y ~ x:z + w", ["y", "x", "z", "w"], True),
    ("y ~ x:f", ["y", "x", "f"], True),
    ("y ~ 0 + f:x + z", ["y", "x", "f", "z"], True),
    ("y ~ f", ["y", "f"], False),
    ("y ~ f:g + x", ["y", "f", "g", "x"], False),
    ("y ~ C(f) + w", ["y", "f", "w"], False),
    ("y ~ C(kk, Sum)", ["y", "kk"], False),
    ("y ~ scale(x) + z", ["y", "x", "z"], False),
    ("y ~ x + (1|g)", ["y", "x", "g"], False),
    ("y ~ (w|g)", ["y", "w", "g"], False),
    ("y ~ x + (z|g:h)", ["y", "x", "z", "g", "h"], False),
    ("y ~ (0 + f|g) + (np.log(x)|h)", ["y", "f", "g", "x", "h"], False),
    ("np.log(y) ~ x", ["y", "x"], True),
    ("yc ~ x", ["yc", "x"], False),
    ("yc[b] ~ x + f", ["yc", "x", "f"], False),
    ("prop(s, n) ~ x", ["s", "n", "x"], False),
    ("prop(s, 9) ~ x + z", ["s", "x", "z"], False),
    ("binary(f, 'a') ~ x", ["f", "x"], False),
    ("y ~ binary(g, 'g1') + offset(w)", ["y", "g", "w"], False),
    ("x + z", ["x", "z"], True),
    ("y ~ poly(x, 2):f + center(z)", ["y", "x", "f", "z"], False),
    ("y ~ bs(x, df=3) + (bs(x, df=3)|g)", ["y", "x", "g"], False),
    ("y ~ addk(np.log(x), k=addk(z, k=w))", ["y", "x", "z", "w"], True),
    ("y ~ I(x > 2) + I(z == 1)", ["y", "x", "z"], False),
    ("y ~ x + z - z", ["y", "x"], True),
    ("y ~ x*z - x:z - z + np.log(w) - np.log(w)", ["y", "x"], True),
    ("y ~ x + (1|g) + (w|h) - (w|h) - (1|h)", ["y", "x", "g"], False),
    ("y ~ z + (x|g)", ["y", "z", "x", "g"], True),
    ("y ~ (0 + np.log(x)|g) + (w|h)", ["y", "x", "g", "w", "h"], True),
]
UNUSED = ["u1", "u2", "k"]
N = 6


def clean():
    return pd.DataFrame({
        "y": [1.5, 2.0, 0.5, 3.0, 2.5, 1.0], "x": [1.0, 2.0, 3.0, 4.0, 5.0, 6.5], "z": [2.0, 1.0, 4.0, 3.0, 6.0, 5.0],
        "w": [0.5, 1.5, 2.5, 3.5, 4.5, 0.25], "my col": [3.0, 1.0, 2.0, 6.0, 5.0, 4.0],
        "f": ["a", "b", "c", "a", "b", "c"], "g": ["g1", "g2", "g1", "g2", "g1", "g2"], "h": ["h1", "h1", "h2", "h2", "h3", "h3"],
        "kk": [10, 20, 30, 30, 10, 20], "s": [1, 2, 3, 4, 5, 6], "n": [9, 8, 7, 9, 8, 7], "yc": ["b", "a", "b", "c", "a", "c"],
        "u1": [0.1, 0.2, 0.3, 0.4, 0.5, 0.6], "u2": ["p", "q", "r", "p", "q", "r"], "k": [7.0, 8.0, 9.0, 7.5, 8.5, 9.5],
    })


NUMERIC = {"y", "x", "z", "w", "my col", "kk", "s", "n", "u1", "k"}


NULLABLE = {"kk": "Int64", "s": "Int64", "n": "Int64", "x": "Float64", "z": "Float64"}


NULLABLE_INT = {"kk": "Int64", "s": "Int64", "n": "Int64", "x": "Int64", "z": "Int32", "w": "UInt8", "my col": "Int16", "k": "Int64"}


def with_missing(cells, marker="none"):
    df = clean()
    if marker in ("intvals", "nullable-int"):  # whole numbers, so that integer extension dtypes can hold them
        df["x"] = [1.0, 2.0, 3.0, 4.0, 5.0, 7.0]
        df["w"] = [1.0, 2.0, 3.0, 4.0, 5.0, 9.0]
        df["k"] = [7.0, 8.0, 9.0, 17.0, 18.0, 19.0]
        if marker == "intvals":
            return df
    if marker in ("nullable", "nullable-int"):  # pandas' nullable extension dtypes hold pd.NA
        NULLABLE = globals()["NULLABLE"] if marker == "nullable" else NULLABLE_INT
        for c, dt in NULLABLE.items():
            df[c] = df[c].astype(dt)
        for r, c in cells:
            if c in NULLABLE:
                df.loc[r, c] = pd.NA
            elif c in NUMERIC:
                df[c] = df[c].astype(float)
                df.loc[r, c] = np.nan
            else:
                col = df[c].astype(object)
                col[r] = None
                df[c] = col
        return df
    if marker in ("big", "huge"):  # hundreds of rows, a single incomplete one; "huge": 1500 rows, the incomplete row near the end
        out = pd.concat([clean()] * (50 if marker == "big" else 250), ignore_index=True)
        for r, c in cells:
            rr = r + (6 * 20 if marker == "big" else 6 * 248)  # somewhere in the middle / beyond the last multiple of 1024
            if c in NUMERIC:
                out[c] = out[c].astype(float)
                out.loc[rr, c] = np.nan
            else:
                col = out[c].astype(object)
                col[rr] = None
                out[c] = col
        return out
    if marker == "ordcat":  # ordered categoricals declaring a category that never occurs (and one that may vanish with a dropped row)
        out = with_missing(cells, "none")
        for c, cats in (("f", ["c", "zz", "a", "b"]), ("g", ["g2", "g1", "g0"]), ("h", ["h3", "h1", "hx", "h2"]), ("yc", ["b", "q", "c", "a"])):
            out[c] = pd.Categorical(out[c], categories=cats, ordered=True)
        return out
    if marker == "dupindex":
        out = with_missing(cells, "none")
        out.index = [0, 0, 1, 1, 0, 2]  # labels shared between complete and incomplete rows
        return out
    for r, c in cells:
        if c in NUMERIC:
            df[c] = df[c].astype(float)
            df.loc[r, c] = np.nan
        else:
            col = df[c].astype(object)
            col[r] = None if marker == "none" else np.nan
            df[c] = col
    return df


def names_in(text):
    """Identifiers and back-quoted names occurring in a term name."""
    import re

    bq = re.findall(r"`([^`]*)`", text)
    rest = re.sub(r"`[^`]*`", " ", text)
    return set(bq) | set(re.findall(r"[A-Za-z_][A-Za-z0-9_.]*", rest))


def patterns(used, tier, formula=""):
    mentioned = [c for c in clean().columns if c in names_in(formula) and c not in used]  # written in the formula but removed again
    cols = list(used) + mentioned + UNUSED
    if tier == "single":
        cols = list(dict.fromkeys(list(used) + mentioned + ["y", "x", "z", "w", "f", "g", "h", "u1", "u2", "k"]))
    cells = [(r, c) for r in range(N) for c in cols]
    out = [[cell] for cell in cells]
    if tier == "single":
        return out
    small = [(r, c) for r in range(4 if tier == "quick" else N) for c in cols]
    out += [list(p) for p in itertools.combinations(small, 2)]
    for c in [c_ for c_ in used if c_ in NUMERIC]:  # no complete row at all
        out.append([(r, c) for r in range(N)])
    nums = [c_ for c_ in used if c_ in NUMERIC]
    if len(nums) >= 2:
        out.append([(r, nums[r % 2]) for r in range(N)])
    for r in (1, 4):  # a whole row missing in every subset of the columns (sizes 3+)
        for k in range(3, len(cols) + 1):
            for sub in itertools.combinations(cols, k):
                out.append([(r, c) for c in sub])
    return out


HIST_A = ["y ~ np.log(z) + w", "y ~ addk(x, k=w)", "y ~ I(u1 + z)", "y ~ x + (np.log(w)|h)", "yc ~ np.exp(z)"]
HIST_B = [0, 2, 4, 21, 12]  # indices into POOL


def units(tier, seed):
    u = [[{"kind": "invalid"}]]
    # the used-variable set of a formula must not depend on the formulas processed before it
    for a in HIST_A:
        u.append([{"kind": "patterns", "i": b, "tier": "single", "marker": "none", "after": a} for b in HIST_B])
    # frames whose index has duplicated labels, and frames with pandas' nullable dtypes (pd.NA)
    for i in (0, 2, 10, 13, 15, 18, 19, 24):
        u.append([{"kind": "patterns", "i": i, "tier": "single", "marker": "dupindex"}])
    for i in (0, 1, 2, 15, 24, 25):
        u.append([{"kind": "patterns", "i": i, "tier": "single", "marker": "nullable"}])
    for i in (0, 1, 2, 15, 24, 25):
        u.append([{"kind": "patterns", "i": i, "tier": "single", "marker": "nullable-int"}])
    for i in (10, 12, 13, 14, 17, 19, 20, 22, 23):
        u.append([{"kind": "patterns", "i": i, "tier": "single", "marker": "ordcat"}])
    for i in (0, 2, 10, 13, 17, 21, 24):
        u.append([{"kind": "patterns", "i": i, "tier": "single", "marker": "big"}])
    for i in (0, 10, 13, 17, 24):
        u.append([{"kind": "patterns", "i": i, "tier": "single", "marker": "huge"}])
    for i in range(len(POOL)):
        u.append([{"kind": "patterns", "i": i, "tier": tier, "marker": m} for m in (["none"] if tier == "quick" else ["none", "nan"])])
    return u


def expand(unit):
    return unit


def build(formula, df, na_action="drop"):
    from formulae import design_matrices

    def addk(a, k=0):
        return a + k

    return design_matrices(formula, df, na_action=na_action)


def mats(dm):
    out = {}
    for nm, M in (("response", dm.response), ("common", dm.common), ("group", dm.group)):
        out[nm] = None if M is None else np.asarray(M.design_matrix, dtype=float)
    return out


def check_patterns(case, acc):
    from fmc.core import exc_sig

    f, used, pointwise = POOL[case["i"]]
    problems = {}
    if case.get("after"):
        build(case["after"], clean())  # an earlier, unrelated design in the same process
    refcache = {}
    clean_df = clean()
    ref_frame = with_missing([], "ordcat") if case["marker"] == "ordcat" else with_missing([], case["marker"]) if case["marker"] in ("big", "huge") else with_missing([], "intvals") if case["marker"] == "nullable-int" else clean_df
    nrows = len(ref_frame)
    off = 120 if case["marker"] == "big" else 6 * 248 if case["marker"] == "huge" else 0
    try:
        full = mats(build(f, ref_frame))
    except Exception:
        acc.case(case, "not-encodable-on-this-frame")  # e.g. C(<ordered categorical declaring an unobserved category>)
        return
    terms_of = {}
    gterms_of = {}
    dm0 = build(f, ref_frame)
    if dm0.common is not None:
        terms_of = {k: (v.start, v.stop) for k, v in dm0.common.slices.items()}
    if dm0.group is not None:
        gterms_of = {k: (v.start, v.stop) for k, v in dm0.group.slices.items()}
    nhit = 0
    pats = patterns(used, case["tier"], f)
    for cells in pats:
        df = with_missing(cells, case["marker"])
        bad_rows = sorted({r + off for r, c in cells if c in used})
        kept = [r for r in range(nrows) if r not in bad_rows]
        tag = f"{f!r} missing={cells}"
        if bad_rows:
            nhit += 1
        # ---- drop
        acc.calls += 1
        acc.traces += 1
        key = tuple(kept)
        if key not in refcache:
            try:
                refcache[key] = mats(build(f, ref_frame.iloc[kept].reset_index(drop=True)))
            except Exception as e:
                refcache[key] = e
        ref = refcache[key]
        try:
            got = mats(build(f, df, "drop"))
            err = None
        except Exception as e:
            got, err = None, e
        if isinstance(ref, Exception):
            pass  # the reduced clean frame itself cannot be encoded (e.g. a bound of bs): nothing to compare
        elif err is not None:
            problems.setdefault(("drop-equals-removed-rows", exc_sig(err)), f"{tag}: na_action='drop' raised {type(err).__name__}: {err}")
        else:
            for nm in ("response", "common", "group"):
                a, b = ref[nm], got[nm]
                if (a is None) != (b is None) or (a is not None and (a.shape != b.shape or not np.allclose(a, b, rtol=1e-12, atol=1e-12, equal_nan=True))):
                    sh = None if b is None else b.shape
                    problems.setdefault(("drop-equals-removed-rows", nm), f"{tag}: {nm} under 'drop' (shape {sh}) is not the design of the frame without rows {bad_rows} (shape {None if a is None else a.shape})")
            rows = {nm: got[nm].shape[0] for nm in got if got[nm] is not None}
            if len(set(rows.values())) > 1:
                problems.setdefault(("row-aligned", "rows"), f"{tag}: matrices have different row counts {rows}")
        # ---- the caller's frame is never touched, also when it holds exactly the columns the formula uses
        if case["marker"] in ("none", "nullable", "nullable-int") and err is None and not isinstance(ref, Exception):
            acc.calls += 1
            sub = df[[c for c in df.columns if c in used]].copy()
            before = sub.copy(deep=True)
            try:
                g2 = mats(build(f, sub, "drop"))
                same_frame = sub.shape == before.shape and list(sub.index) == list(before.index) and all((sub[c].isna() == before[c].isna()).all() and (sub[c].dropna() == before[c].dropna()).all() for c in sub.columns)
                if not same_frame:
                    problems.setdefault(("caller-frame-untouched", "rows"), f"{tag}: after design_matrices(..., na_action='drop') on a frame holding exactly the used columns, the caller's frame has {len(sub)} rows (had {len(before)})")
                for nm in ("response", "common", "group"):
                    a, b = got[nm], g2[nm]
                    if (a is None) != (b is None) or (a is not None and (a.shape != b.shape or not np.allclose(a, b, rtol=1e-12, atol=1e-12, equal_nan=True))):
                        problems.setdefault(("drop-equals-removed-rows", "used-columns-only"), f"{tag}: {nm} differs when the frame holds only the used columns")
            except Exception as e:
                problems.setdefault(("drop-equals-removed-rows", "used-columns-only-" + exc_sig(e)), f"{tag}: on a frame holding exactly the used columns 'drop' raised {type(e).__name__}: {e}")
        # ---- error
        acc.calls += 1
        try:
            build(f, df, "error")
            raised = None
        except ValueError as e:
            raised = e
        except Exception as e:
            raised = e
            problems.setdefault(("error-iff-incomplete", exc_sig(e)), f"{tag}: na_action='error' raised {type(e).__name__}, not ValueError")
        if bool(bad_rows) != (raised is not None) and not isinstance(full, Exception):
            problems.setdefault(("error-iff-incomplete", "raises" if raised else "silent"), f"{tag}: na_action='error' {'raised' if raised else 'did not raise'} although {'no' if not bad_rows else 'a'} used variable is missing (rows {bad_rows})")
        # ---- pass
        num_missing = [(r, c) for r, c in cells if c in used]
        if pointwise and all(c in NUMERIC for r, c in cells):
            acc.calls += 1
            try:
                gp = mats(build(f, df, "pass"))
            except Exception as e:
                problems.setdefault(("pass-keeps-rows", exc_sig(e)), f"{tag}: na_action='pass' raised {type(e).__name__}: {e}")
                continue
            for nm in ("response", "common", "group"):
                a, b = full[nm], gp[nm]
                if a is None:
                    continue
                if b is None or b.shape != a.shape:
                    problems.setdefault(("pass-keeps-rows", nm), f"{tag}: {nm} under 'pass' has shape {None if b is None else b.shape}, expected {a.shape}")
                    continue
                a2 = a.reshape(nrows, -1)
                b2 = b.reshape(nrows, -1)
                exp = a2.copy()
                for r, c in [(r_ + off, c_) for r_, c_ in num_missing]:
                    if nm == "response":
                        if c in ("y", "s", "n"):
                            exp[r, :] = np.nan
                    elif nm == "group":
                        for tname, (lo, hi) in gterms_of.items():
                            if c in names_in(tname.split("|")[0]):
                                exp[r, lo:hi] = np.nan  # every slot: the values are multiplied by the indicators
                    else:
                        for tname, (lo, hi) in terms_of.items():
                            if c in names_in(tname) or (" " in c and c in tname):
                                exp[r, lo:hi] = np.nan
                if not np.allclose(exp, b2, rtol=1e-12, atol=1e-12, equal_nan=True):
                    bad = np.argwhere(~np.isclose(exp, b2, equal_nan=True))
                    problems.setdefault(("pass-nan-placement", nm), f"{tag}: {nm} under 'pass': entry {bad[0].tolist()} is {b2[tuple(bad[0])]}, expected {exp[tuple(bad[0])]} (NaN in exactly the columns derived from the missing variable)")
    acc.subcases(case, len(pats) - 1, True, "patterns")
    if problems:
        acc.case(case, "MISMATCH", sample=False)
        for (clause, sig), msg in problems.items():
            acc.violation(clause, sig, case, msg)
    else:
        acc.case(case, "ok", nontrivial=nhit > 0)


def check_invalid(case, acc):
    problems = []
    for f, used, _ in POOL[:6]:
        for df in (clean(), with_missing([(0, "x")])):
            for bad in ("Drop", "", "ignore", None, "raise", "omit", 0, "pass "):
                acc.calls += 1
                try:
                    build(f, df, bad)
                    problems.append(f"na_action={bad!r} was accepted for {f!r}")
                except ValueError:
                    pass
                except Exception as e:
                    problems.append(f"na_action={bad!r} raised {type(e).__name__}")
    if problems:
        acc.case(case, "MISMATCH")
        acc.violation("other-na-action-refused", "accepted", case, "; ".join(problems[:3]))
    else:
        acc.case(case, "ok", nontrivial=True)


def check_case(case, acc):
    if case["kind"] == "invalid":
        check_invalid(case, acc)
    else:
        check_patterns(case, acc)


def classify(case, clause, sig, detail):
    return "-"


def snippet(case):
    return f"# fmc.checks.c09: formula {POOL[case['i']][0]!r}" if case.get("kind") == "patterns" else "# na_action validation"

"""C15 - response handling (DESIGN.md 3, C15)."""
import numpy as np
import pandas as pd

ID = "C15"
RULE = (
    "every response form (numeric, str, unordered Categorical with declared non-sorted categories, ordered "
    "Categorical with non-sorted declared order, y[ident] and y['quoted'] / y[\"quoted\"] for every level of each, "
    "levels with spaces, calls np.log(y) / binary / B, prop with column / constant trials, no response) x every "
    "right-hand side of the pool (incl. group terms and no-intercept) x frame variants (row counts 7 and 10): "
    "pointwise meaning of the response columns, kind/levels, predictor matrices bitwise identical for every response "
    "naming and for no response; every invalid left-hand side (sum, product, nesting, interaction, group term, "
    "offset, literal) must be refused.  A case is one (response form, rhs, frame); non-trivial: categorical or "
    "y[level] or prop response"
    '  Added: digit-only level names, an int64 response above 2^53 (exact), int8 successes, literal-only '
    'right-hand sides, one- and two-row frames, single-level / empty-level / blank-level categorical '
    'responses, one model description evaluated by DesignMatrices on two frames and with two Environment '
    'objects. '
    'Later: rows dropped for a missing predictor (stateful, call, categorical, prop responses), blank-run '
    'levels, float-stored whole counts, frames of 1500 rows, C(kd) responses, right-hand sides containing the '
    "response, the caller's copies overwritten. "
)
ASSUMPTIONS = ["'y - z ~ x' and 'y + y ~ x' reduce to the single term y by the term algebra and are not treated as multi-term responses"]

RHS = ["x + y", "ys + x + np.log(y)", "0", "1 - 1", "x", "0 + x", "x + f", "f:g", "x*f", "1", "x + (1|g)", "(x|g) + f", "0 + f + (0 + x|g)", "scale(x) + (f|g)", "poly(x, 2) + C(kk)"]
NS = [7, 10]


def frame(n):
    i = np.arange(n)
    df = pd.DataFrame({
        "y": np.round(np.sin(i) * 2 + 3, 3), "z": np.round(np.cos(i) + 2, 3), "x": np.round(i * 0.7 + 1, 2),
        "f": [["b", "c", "a"][k % 3] for k in i], "g": [["g2", "g1"][(k // 2) % 2] for k in i], "kk": [[30, 10, 20][(k + k // 3) % 3] for k in i],
        "s": [(k * 3) % 5 for k in i], "n": [5 + (k % 3) for k in i], "s8": np.array([(k * 3) % 5 for k in i], dtype="int8"),
        "yn": [["café", "Zürich", "x y"][(k + k // 5) % 3] for k in i],
        "yd": [["1", "2", "10"][(k + k // 2) % 3] for k in i],  # level names made of digits only
        "ybig": np.array([2 ** 53 + 1 + 2 * int(k) for k in i], dtype="int64"),  # integers a float64 cannot hold exactly
        "ys": [["mid", "low", "high"][(k + k // 4) % 3] for k in i],
        "yq": [["level one", "b two", "a-3"][(2 * k + k // 3) % 3] for k in i],
        "y1": ["only"] * n,  # a categorical response with a single level
        "kd": [[2, 10, 5, -1][(k + k // 3) % 4] for k in i],  # numbers whose text order is not their order
        "ye": [["", "b", " "][(k + k // 2) % 3] for k in i],  # an empty and a blank level name
        "yw": [["New York", "New  York", "Bos\tton"][(k + k // 3) % 3] for k in i],  # levels that differ only in the run of blanks; a tab
    })
    df["yu"] = pd.Categorical(df["ys"], categories=["mid", "high", "low"])  # unordered: sorted order applies
    df["yo"] = pd.Categorical(df["ys"], categories=["low", "mid", "high"], ordered=True)  # declared order applies
    df["yo2"] = pd.Categorical(df["ys"], categories=["top", "low", "mid", "none", "high"], ordered=True)  # two declared levels never occur
    return df


RESP = []
for col, order in (("ys", "sorted"), ("yu", "sorted"), ("yo", "declared")):
    RESP.append({"text": col, "kind": "cat", "col": col, "order": order})
    for lvl in ("low", "mid", "high"):
        RESP.append({"text": f"{col}[{lvl}]", "kind": "level", "col": col, "level": lvl})
        RESP.append({"text": f"{col}['{lvl}']", "kind": "level", "col": col, "level": lvl})
RESP.append({"text": "yq", "kind": "cat", "col": "yq", "order": "sorted"})
RESP.append({"text": "y1", "kind": "cat", "col": "y1", "order": "sorted"})
RESP.append({"text": "C(kd)", "kind": "cat", "col": "kd", "order": "sorted"})
RESP.append({"text": "T(kd)", "kind": "cat", "col": "kd", "order": "sorted"})
RESP.append({"text": "ye", "kind": "cat", "col": "ye", "order": "sorted"})
RESP.append({"text": "yw", "kind": "cat", "col": "yw", "order": "sorted"})
for _q in ("'", '"'):
    for _lvl in ("New York", "New  York", "Bos\tton"):
        RESP.append({"text": f"yw[{_q}{_lvl}{_q}]", "kind": "level", "col": "yw", "level": _lvl})
for _q in ("'", '"'):
    for _lvl in ("", " ", "b"):
        RESP.append({"text": f"ye[{_q}{_lvl}{_q}]", "kind": "level", "col": "ye", "level": _lvl})
RESP.append({"text": "y1[only]", "kind": "level", "col": "y1", "level": "only"})
RESP.append({"text": "yo2", "kind": "cat", "col": "yo2", "order": "declared"})
RESP.append({"text": "yo2[mid]", "kind": "level", "col": "yo2", "level": "mid"})
for lvl in ("level one", "b two", "a-3"):
    RESP.append({"text": f"yq['{lvl}']", "kind": "level", "col": "yq", "level": lvl})
    RESP.append({"text": f'yq["{lvl}"]', "kind": "level", "col": "yq", "level": lvl})
RESP += [
    {"text": "y", "kind": "num"}, {"text": "np.log(y)", "kind": "call-log"}, {"text": "I(y * 2)", "kind": "call-2y"},
    {"text": "binary(ys, 'mid')", "kind": "binary", "col": "ys", "level": "mid"}, {"text": "B(yo, 'low')", "kind": "binary", "col": "yo", "level": "low"},
    {"text": "binary(f)", "kind": "binary", "col": "f", "level": "a"},
    {"text": "prop(s, n)", "kind": "prop", "trials": "n"}, {"text": "p(s, n)", "kind": "prop", "trials": "n"}, {"text": "proportion(s, 9)", "kind": "prop", "trials": 9},
    {"text": "prop(s, 4)", "kind": "prop", "trials": 4},
    {"text": "prop(s8, 300)", "kind": "prop", "trials": 300, "succ": "s8"}, {"text": "prop(s8, n)", "kind": "prop", "trials": "n", "succ": "s8"},
    {"text": "yd", "kind": "cat", "col": "yd", "order": "sorted"}, {"text": "yd['1']", "kind": "level", "col": "yd", "level": "1"},
    {"text": 'yd["10"]', "kind": "level", "col": "yd", "level": "10"}, {"text": "yd['2']", "kind": "level", "col": "yd", "level": "2"},
    {"text": "ybig", "kind": "bigint"},
    {"text": "yn", "kind": "cat", "col": "yn", "order": "sorted"}, {"text": "yn['café']", "kind": "level", "col": "yn", "level": "café"},
    {"text": 'yn["Zürich"]', "kind": "level", "col": "yn", "level": "Zürich"}, {"text": "yn['x y']", "kind": "level", "col": "yn", "level": "x y"},
]
INVALID = ["ys[low] + ys[mid]", "ys[low]:ys[mid]", "ys + ys[low]", "ys[low] + ys", "y + z", "y * z", "y / z", "y:z", "(y|g)", "(1|g)", "offset(y)", "1", "0", "y + (1|g)", "(y + z)", "y:z:x", "y ** 2 + z"]


def units(tier, seed):
    u = []
    rhss = list(RHS)
    if tier == "thorough":
        rhss += ["f*g*x", "0 + f:x + (f|g)", "bs(x, df=4) + (1|g)", "C(f, Sum):x", "(0 + x|g) + (0 + z|g)", "x + z + x:z", "S(f) + T(g, 'g2')", "I(x ** 2) + {z / x}"]
    for n in (NS if tier == "quick" else [7, 10, 13, 16, 25]):
        for rhs in rhss:
            u.append([{"n": n, "rhs": rhs}])
    for n in NS:
        u.append([{"nadrop": True, "n": n}])
    u.append([{"n": 1500, "rhs": "x"}])  # more than a thousand rows
    u.append([{"n": 1203, "rhs": "f + (1|g)"}])
    for n in (1, 2):  # frames with a single row / two rows
        for rhs in ("x", "0 + x", "1", "x + z"):
            u.append([{"n": n, "rhs": rhs}])
    u.append([{"invalid": True}])
    for n in (NS if tier == "quick" else [7, 10, 13, 16, 25]):
        u.append([{"reuse": True, "n": n}])
    return u


def expand(unit):
    return unit


def build(formula, df):
    from formulae import design_matrices

    return design_matrices(formula, df)


def pred(dm):
    return (None if dm.common is None else np.array(dm.common.design_matrix, dtype=float), None if dm.group is None else np.array(dm.group.design_matrix, dtype=float),
            None if dm.common is None else list(dm.common.as_dataframe().columns), None if dm.group is None else {k: (v.start, v.stop) for k, v in dm.group.slices.items()})


def same_pred(a, b):
    for u, v in zip(a, b):
        if (u is None) != (v is None):
            return False
        if isinstance(u, np.ndarray):
            if u.shape != v.shape or not np.array_equal(u, v, equal_nan=True):
                return False
        elif u != v:
            return False
    return True


def resp_view(dm):
    R = dm.response
    if R is None:
        return None
    return (np.array(R.design_matrix), R.kind, None if R.levels is None else list(R.levels), R.name, list(R.as_dataframe().columns))


def check_reuse(case, acc):
    """One model description evaluated on a first frame, then on a frame where another set of response levels occurs: the
    response of the second design is the response of a fresh design on that frame."""
    from formulae import design_matrices, model_description
    from formulae.matrices import DesignMatrices
    from formulae.environment import Environment

    df1 = frame(case["n"])
    problems = []
    for r in RESP:
        f = f"{r['text']} ~ x"
        df2 = frame(case["n"] + 3).iloc[::-1].reset_index(drop=True)
        col = r.get("col")
        if col is not None and df2[col].nunique() > 1:
            gone = [l for l in sorted(set(df2[col].astype(str))) if l != r.get("level")][0]
            df2 = df2[df2[col].astype(str) != gone].reset_index(drop=True)
        acc.calls += 3
        acc.traces += 1
        try:
            desc = model_description(f)
            env = Environment.capture(0)
            DesignMatrices(desc, df1, env)
            second = resp_view(DesignMatrices(desc, df2, env))
        except Exception as e:
            problems.append(f"{f!r}: one description evaluated on two frames raised {type(e).__name__}: {e}")
            continue
        fresh = resp_view(design_matrices(f, df2))
        same = all((np.array_equal(a, b) if isinstance(a, np.ndarray) else a == b) for a, b in zip(second, fresh)) and second[0].shape == fresh[0].shape
        if not same:
            problems.append(f"{f!r}: the response of the second design built from one description (levels {second[2]}, shape {second[0].shape}) is not the response of a fresh design on that frame (levels {fresh[2]}, shape {fresh[0].shape})")
    # ... and with another Environment object the second time: names of the response call come from the environment passed
    for text in ("prop(s, m)", "fz(y)", "I(y * m)"):  # (not stateful transforms: those keep what they learnt the first time, by design)
        f = f"{text} ~ x"
        e1 = Environment([{"m": 5, "fz": (lambda v: v + 100.0), "lvl": "mid"}])
        e2 = Environment([{"m": 9, "fz": (lambda v: v * 2.0), "lvl": "low"}])
        acc.calls += 3
        try:
            desc = model_description(f)
            DesignMatrices(desc, df1, e1)
            second = resp_view(DesignMatrices(desc, df1, e2))
            fresh = resp_view(DesignMatrices(model_description(f), df1, e2))
        except Exception as e:
            problems.append(f"{f!r}: one description evaluated with two Environment objects raised {type(e).__name__}: {e}")
            continue
        same = all((np.array_equal(a, b) if isinstance(a, np.ndarray) else a == b) for a, b in zip(second, fresh)) and second[0].shape == fresh[0].shape
        if not same:
            problems.append(f"{f!r}: evaluated a second time with another Environment object, the response is not that of a fresh description with that environment")
    acc.subcases(case, len(RESP) - 1, True, "response-forms")
    if problems:
        acc.case(case, "MISMATCH")
        acc.violation("response-of-the-frame-evaluated", "mismatch", case, "; ".join(problems[:3]))
    else:
        acc.case(case, "ok", nontrivial=True)


def check_nadrop(case, acc):
    """Rows dropped for a missing predictor: the response is the response of the design built on the retained rows."""
    df = frame(case["n"]).copy()
    df.loc[[1, 4], "x"] = np.nan
    kept = df.drop(index=[1, 4]).reset_index(drop=True)
    problems = []
    texts = ["center(y)", "scale(y)", "standardize(y)", "binary(ys)", "B(ys, 'mid')", "np.log(y)", "I(y - np.mean(y))", "poly(y, 2)"] + [r["text"] for r in RESP]
    for text in texts:
        f = f"{text} ~ x"
        acc.calls += 2
        acc.traces += 1
        try:
            want = resp_view(build(f, kept))
        except Exception:
            continue
        try:
            got = resp_view(build(f, df))
        except Exception as e:
            problems.append(f"{f!r} with two incomplete rows raised {type(e).__name__}: {e}")
            continue
        same = all((a.shape == b.shape and np.allclose(a.astype(float), b.astype(float), rtol=1e-13, atol=0, equal_nan=True)) if isinstance(a, np.ndarray) else a == b for a, b in zip(got, want))
        if not same:
            problems.append(f"{f!r}: with rows 1 and 4 dropped for a missing predictor, the response is not the response of the design on the retained rows")
    # a missing count: pandas stores the column as float64; the retained whole numbers are still counts
    dfc = frame(case["n"]).copy()
    dfc["s"] = dfc["s"].astype(float)
    dfc["n"] = dfc["n"].astype(float)
    dfc.loc[2, "s"] = np.nan
    dfc.loc[5, "n"] = np.nan
    for text in ("prop(s, n)", "p(s, n)", "proportion(s, 9)", "prop(s, n + 1)"):
        f = f"{text} ~ x"
        keptc = frame(case["n"]).drop(index=[2, 5] if "n" in text.split("(", 1)[1] else [2]).reset_index(drop=True)  # integer columns, rows with a used count
        acc.calls += 2
        try:
            want = resp_view(build(f, keptc))
            got = resp_view(build(f, dfc))
        except Exception as e:
            problems.append(f"{f!r} with float-stored whole counts (a count missing elsewhere in the column) raised {type(e).__name__}: {e}")
            continue
        if got[0].shape != want[0].shape or not np.array_equal(got[0].astype(float), want[0].astype(float)) or got[1:] != want[1:]:
            problems.append(f"{f!r}: with a count missing in two rows the response is not [successes, trials] of the retained rows")
    acc.subcases(case, len(texts) - 1, True, "response-forms")
    if problems:
        acc.case(case, "MISMATCH")
        acc.violation("response-of-the-retained-rows", "mismatch", case, "; ".join(problems[:3]))
    else:
        acc.case(case, "ok", nontrivial=True)


def check_case(case, acc):
    from fmc.core import exc_sig

    if case.get("reuse"):
        return check_reuse(case, acc)
    if case.get("nadrop"):
        return check_nadrop(case, acc)

    if case.get("invalid"):
        problems = []
        df = frame(7)
        for lhs in INVALID:
            for rhs in ("x", "x + (1|g)"):
                acc.calls += 1
                try:
                    dm = build(f"{lhs} ~ {rhs}", df)
                    problems.append(f"'{lhs} ~ {rhs}' was accepted (response {dm.response.name if dm.response is not None else None})")
                except Exception:
                    pass
        if problems:
            acc.case(case, "MISMATCH")
            acc.violation("single-term-response", "accepted", case, "; ".join(problems[:4]))
        else:
            acc.case(case, "ok", nontrivial=True)
        return
    df = frame(case["n"])
    rhs = case["rhs"]
    problems = []
    acc.calls += 1
    try:
        base = build(rhs, df)  # no response
    except Exception as e:
        acc.violation("no-response", exc_sig(e), case, f"{rhs!r} without response raised {type(e).__name__}: {e}")
        return
    if base.response is not None:
        problems.append(("no-response", f"{rhs!r}: design without '~' has a response"))
    bp = pred(base)
    for r in RESP:
        f = f"{r['text']} ~ {rhs}"
        acc.calls += 1
        acc.traces += 1
        if r["kind"] == "binary" and r["text"] == "binary(f)":
            r = dict(r, level=sorted(set(df["f"]))[0])  # the default success is the first level that occurs
        try:
            dm = build(f, df)
        except Exception as e:
            if r["kind"] == "binary" and r["level"] not in set(df[r["col"]].astype(str)):
                continue  # a success value that does not occur is rightly refused
            problems.append(("response-exists", f"{f!r} raised {type(e).__name__}: {e}"))
            continue
        if not same_pred(bp, pred(dm)):
            problems.append(("predictors-independent-of-response", f"{f!r}: predictor matrices differ from those of {rhs!r} without response"))
        R = dm.response
        if R is None:
            problems.append(("response-exists", f"{f!r}: no response matrix"))
            continue
        M = np.asarray(R.design_matrix, dtype=float)
        k = r["kind"]
        if k == "bigint":
            got = [int(v) for v in np.asarray(R.design_matrix).reshape(-1).tolist()] if np.asarray(R.design_matrix).dtype.kind in "iu" else np.asarray(R.design_matrix).reshape(-1).tolist()
            if got != [int(v) for v in df["ybig"].tolist()]:
                problems.append(("numeric-unchanged", f"{f!r}: an int64 response is not returned unchanged (first value {got[0]!r} vs {int(df['ybig'].iloc[0])})"))
        elif k == "num":
            if M.shape != (len(df),) and M.shape != (len(df), 1) or not np.array_equal(M.reshape(-1), df["y"].to_numpy()) or R.kind != "numeric":
                problems.append(("numeric-unchanged", f"{f!r}: numeric response is not the column unchanged (kind {R.kind})"))
        elif k in ("call-log", "call-2y"):
            want = np.log(df["y"].to_numpy()) if k == "call-log" else df["y"].to_numpy() * 2
            if not np.allclose(M.reshape(-1), want, rtol=1e-15, atol=0):
                problems.append(("numeric-unchanged", f"{f!r}: response is not the value of the call"))
        elif k == "cat":
            col = df[r["col"]]
            order = sorted(set(col)) if r["order"] == "sorted" else list(col.cat.categories)
            want = np.column_stack([(col == l).to_numpy(dtype=float) for l in order])
            if M.shape != want.shape or not np.array_equal(M, want):
                problems.append(("categorical-indicators", f"{f!r}: response columns are not the level indicators in the order {order} (shape {M.shape})"))
            if list(R.levels or []) != [str(l) for l in order]:
                problems.append(("categorical-indicators", f"{f!r}: levels {R.levels}, expected {order}"))
            if R.kind != "categoric":
                problems.append(("categorical-indicators", f"{f!r}: kind {R.kind}"))
        elif k in ("level", "binary"):
            col = df[r["col"]]
            want = (col == r["level"]).to_numpy(dtype=float)
            if M.reshape(len(df), -1).shape[1] != 1 or not np.array_equal(M.reshape(-1), want):
                problems.append(("level-indicator", f"{f!r}: response is not the single 0/1 column of {r['col']} == {r['level']!r} (got {M.reshape(len(df), -1)[:, 0].tolist()})"))
        elif k == "prop":
            tr = df["n"].to_numpy(dtype=float) if r["trials"] == "n" else np.full(len(df), float(r["trials"]))
            want = np.column_stack([df[r.get("succ", "s")].to_numpy(dtype=float), tr])
            if M.shape != want.shape or not np.array_equal(M, want) or R.kind != "proportion":
                problems.append(("prop-successes-trials", f"{f!r}: response is not [successes, trials] (kind {R.kind}, shape {M.shape})"))
        if M.shape[0] != len(df):
            problems.append(("response-exists", f"{f!r}: {M.shape[0]} response rows for {len(df)} observations"))
        # np.array(response) is the caller's copy, the data-frame view too: overwriting them leaves the response as it was
        before = np.array(R.design_matrix, copy=True)
        mine = np.array(R)
        if mine.flags.writeable:
            mine[...] = -3
        try:
            fr_ = R.as_dataframe()
            fr_.iloc[:, :] = fr_.to_numpy() * 0 - 7
        except Exception:
            pass
        if not np.array_equal(np.asarray(R.design_matrix), before, equal_nan=True):
            problems.append(("response-exists", f"{f!r}: the response matrix changed when the caller overwrote its own np.array(response) / as_dataframe() copy"))
    acc.subcases(case, len(RESP) - 1, True, "response-forms")
    if problems:
        acc.case(case, "MISMATCH", sample=False)
        seen = set()
        for clause, msg in problems:
            if clause not in seen:
                seen.add(clause)
                acc.violation(clause, "mismatch", case, msg)
    else:
        acc.case(case, "ok", nontrivial=True)


def classify(case, clause, sig, detail):
    return "-"


def snippet(case):
    return f"# fmc.checks.c15 case {case!r}"

"""C14 - stateful transforms satisfy their mathematical contracts (DESIGN.md 3, C14)."""
import itertools

import numpy as np

from fmc.refmodel import linalg

ID = "C14"
RULE = (
    "every multiset of length 3..5 (thorough: 6) over {0,1,2,5}, sorted and in one unsorted arrangement, at offsets "
    "{0, 1e4} and scales {1, 1e-3}: center/scale/standardize (mean 0, population sd 1, same affine map on every "
    "later 2-vector); bs for df 1..8 x degree 0..5 x intercept x {no knots, every explicit knot set of <= 2 distinct "
    "interior values} x bounds {none, data range, wider, zero-anchored} (column count, non-negativity, partition of "
    "unity inside the boundary knots on training and later data; invalid combinations refused); poly degree 1..6 x "
    "raw (orthonormal, orthogonal to 1, span of x..x^d, exact powers), two poly instances in one process.  A case is "
    "one (vector, offset, scale); non-trivial: the vector has ties or a large offset"
    '  Added: zero-mean vectors, two instances of one transform, invalid parameters, design-level histories '
    '(frame edited in place, caller-defined center / scale helpers, refused frames between good ones, '
    'integer-typed later frames, keyword forms of poly / bs, group-specific transforms), the same whole '
    'numbers stored as int64 / int32 / int16 / int8 / uint8. '
    'Later: df and knots together, an out-of-range knot anywhere in the list, vectors of 1201 values, a caller '
    'array used as knots and refilled, an earlier fit of the same text on other data, fractional NumPy scalars '
    'as df / degree. '
)
ASSUMPTIONS = [
    "tolerances are fixed constants scaled by the conditioning (offset/scale); the reference formulas pass them with two orders of magnitude to spare (see selftest)",
    "bs cases where a percentile knot coincides with a boundary knot are evaluated at strictly interior non-knot points only; poly is not demanded for <= d distinct values",
]

ALPHA = [0.0, 1.0, 2.0, 5.0]


def vectors(maxlen):
    out = []
    for n in range(3, maxlen + 1):
        for ms in itertools.combinations_with_replacement(ALPHA, n):
            if len(set(ms)) < 2:
                continue
            out.append(list(ms))
            rot = list(ms[::-1])
            rot = rot[1:] + rot[:1]
            if rot != list(ms):
                out.append(rot)
    return out


def units(tier, seed):
    vs = vectors(5 if tier == "quick" else 6)
    u = []
    for off, sc in [(0.0, 1.0), (1e4, 1e-3), (1e4, 1.0), (0.0, 1e-3)]:
        for i in range(0, len(vs), 6):
            u.append([{"v": v, "off": off, "sc": sc} for v in vs[i : i + 6]])
    cent = [[-1.0, 0.0, 1.0], [-2.0, -1.0, 1.0, 2.0], [-5.0, 0.0, 5.0], [-3.0, 1.0, 2.0], [-1.0, -1.0, 2.0], [-2.0, -2.0, -1.0, 5.0], [0.5, -0.5, 1.5, -1.5, 0.0]]
    u.append([{"v": v, "off": 0.0, "sc": 1.0} for v in cent])  # training mean exactly zero
    for rot in (0, 1):  # more than a thousand values (four distinct ones)
        u.append([{"long": rot, "off": 0.0, "sc": 1.0}])
    u.append([{"invalid": True}])
    u.append([{"design": True}])
    u.append([{"two-instances": True}])
    return u


def expand(unit):
    return unit


def T(name):
    from formulae.transforms import TRANSFORMS

    return TRANSFORMS[name]()


def check_affine(x, problems, cond):
    later = [np.array([a, b]) * 1.0 for a in (x.min(), x.max(), x.mean() + 0.3 * (x.max() - x.min())) for b in (x.min() - 1, x[0])]
    m, s = x.mean(), x.std()
    tol = 1e-9 * cond
    for name in ("center", "scale", "standardize"):
        t = T(name)
        out = np.asarray(t(x), dtype=float)
        if abs(out.mean()) > tol * max(1.0, np.abs(x - m).max()):
            problems.append(("center-scale", f"{name}: training mean {out.mean():.3e} is not 0"))
        if name != "center" and abs(out.std() - 1.0) > tol:
            problems.append(("center-scale", f"{name}: training population sd {out.std():.12f} is not 1"))
        for nx in later:
            got = np.asarray(t(nx), dtype=float)
            want = (nx - m) if name == "center" else (nx - m) / s
            if not np.allclose(got, want, rtol=tol, atol=tol * max(1.0, np.abs(want).max())):
                problems.append(("center-scale", f"{name}: later data {nx} mapped to {got}, expected the training map {want}"))
                break
        again = np.asarray(t(x), dtype=float)
        if not np.allclose(again, out, rtol=0, atol=1e-15 * cond):
            problems.append(("center-scale", f"{name}: re-applying to the training data gives another result"))


def check_int_dtypes(x, problems, acc):
    """Whole-number data stored in an integer dtype (training column or later frame) gives what the same numbers give as floats."""
    if not np.all(x == np.round(x)) or np.abs(x).max() > 2 ** 30:
        return
    dtypes = ["int64", "int32"] + (["int16", "int8"] if np.abs(x).max() < 100 else []) + (["uint8"] if x.min() >= 0 and x.max() < 200 else [])
    lo, hi = int(x.min()), int(x.max())
    grid = np.arange(lo, hi + 1)
    calls = [("center", {}), ("scale", {}), ("poly", {"degree": 2}), ("bs", {"df": 4}), ("bs", {"df": 3, "degree": 2}), ("bs", {"df": 5, "intercept": True})]
    for name, kw in calls:
        try:
            t0 = T(name)
            ref = np.asarray(t0(x, **kw), dtype=float)
            ref_grid = np.asarray(t0(grid.astype(float), **kw), dtype=float)
        except Exception:
            continue  # what this vector allows is decided by the float clauses
        for dt in dtypes:
            acc.calls += 2
            try:
                t = T(name)
                got = np.asarray(t(x.astype(dt), **kw), dtype=float)
                got_grid = np.asarray(t(grid.astype(dt), **kw), dtype=float)
                t2 = T(name)
                t2(x, **kw)
                later = np.asarray(t2(grid.astype(dt), **kw), dtype=float)
            except Exception as e:
                problems.append(("integer-dtype", f"{name}{kw} on the same numbers stored as {dt} raised {type(e).__name__}: {e}"))
                break
            for what, a, b in (("training values", ref, got), ("later grid after integer training", ref_grid, got_grid), ("later integer grid after float training", ref_grid, later)):
                if a.shape != b.shape or not np.allclose(a, b, rtol=1e-9, atol=1e-12, equal_nan=True):
                    problems.append(("integer-dtype", f"{name}{kw}: {what} differ when the numbers are stored as {dt} instead of float64"))
                    break
            else:
                continue
            break


def bs_expected_cols(df, knots, degree, intercept):
    if df is not None:
        return df
    return len(knots) + degree + (1 if intercept else 0)


def check_bs(x, problems, acc, cond):
    lo, hi = x.min(), x.max()
    dist = sorted(set(x.tolist()))
    interior = [v for v in dist if lo < v < hi]
    knotsets = [None] + [[a] for a in interior] + [[a, b] for a, b in itertools.combinations(interior, 2)]
    span = hi - lo
    bounds = [(None, None), (lo, hi), (lo - 0.5 * span, hi + span)]
    if lo > 0:
        bounds.append((0, hi))  # an explicit bound of exactly zero
    tol = 1e-9
    for degree in range(0, 6):
        for intercept in (False, True):
            for knots in knotsets:
                dfs = list(range(1, 9)) if knots is None else [None]
                for df in dfs:
                    for lb, ub in bounds:
                        n_inner = (df - (degree + 1) + (0 if intercept else 1)) if df is not None else len(knots)
                        kw = dict(degree=degree, intercept=intercept)
                        if df is not None:
                            kw["df"] = df
                        if knots is not None:
                            kw["knots"] = knots
                        if lb is not None:
                            kw["lower_bound"], kw["upper_bound"] = lb, ub
                        acc.calls += 1
                        t = T("bs")
                        try:
                            B = np.asarray(t(x, **kw), dtype=float)
                        except Exception as e:
                            if n_inner < 0:
                                continue  # df too small: must be refused
                            if df == 0:
                                continue
                            problems.append(("bs", f"bs{kw} raised {type(e).__name__}: {e}"))
                            continue
                        if n_inner < 0:
                            problems.append(("bs-invalid-refused", f"bs{kw}: df too small for degree/intercept but accepted"))
                            continue
                        acc.traces += 1
                        L = lo if lb is None else lb
                        U = hi if ub is None else ub
                        if knots is None:
                            q = np.linspace(0, 1, n_inner + 2)[1:-1]
                            inner = np.percentile(x, 100 * q) if n_inner > 0 else np.array([])
                        else:
                            inner = np.array(knots, dtype=float)
                        ncol = bs_expected_cols(df, knots, degree, intercept)
                        if knots is not None and lb is None:
                            # df and knots given together: the consistent df is accepted and changes nothing, any other is refused
                            acc.calls += 3
                            try:
                                B2 = np.asarray(T("bs")(x, df=ncol, **kw), dtype=float)
                                if B2.shape != B.shape or not np.array_equal(B2, B, equal_nan=True):
                                    problems.append(("bs", f"bs{kw} with the consistent df={ncol} differs from the call without df"))
                            except Exception as e:
                                problems.append(("bs", f"bs{kw} with the consistent df={ncol} raised {type(e).__name__}: {e}"))
                            for bad in (ncol + 1, ncol - 1):
                                if bad < 1:
                                    continue
                                try:
                                    T("bs")(x, df=bad, **kw)
                                    problems.append(("bs-invalid-refused", f"bs{kw} with the contradictory df={bad} (knots and degree give {ncol} columns) was accepted"))
                                except Exception:
                                    pass
                        if B.ndim != 2 or B.shape != (len(x), ncol):
                            problems.append(("bs", f"bs{kw}: shape {B.shape}, expected {(len(x), ncol)}"))
                            continue
                        degenerate = bool(len(inner)) and (np.any(inner <= L) or np.any(inner >= U) or len(set(inner.tolist())) < len(inner))
                        pts = np.array(sorted(set(x.tolist() + [(a + b) / 2 for a, b in zip(dist, dist[1:])] + [L, U, (L + U) / 2])))
                        pts = pts[(pts >= L) & (pts <= U)]
                        if degenerate:
                            allk = set(inner.tolist()) | {L, U}
                            pts = np.array([p for p in pts if L < p < U and p not in allk])
                        if len(pts) == 0:
                            continue
                        P = np.asarray(t(pts, **kw), dtype=float)
                        if P.shape != (len(pts), ncol):
                            problems.append(("bs", f"bs{kw}: later data gives shape {P.shape}, expected {(len(pts), ncol)}"))
                            continue
                        for M, what in ((B if not degenerate else P, "training data"), (P, "later data inside the boundary knots")):
                            if M.min() < -tol:
                                problems.append(("bs", f"bs{kw}: negative basis value {M.min():.3e} on {what}"))
                                break
                            if intercept and not np.allclose(M.sum(axis=1), 1.0, rtol=0, atol=1e-8):
                                problems.append(("bs", f"bs{kw}: basis does not sum to one on {what} (row sums {M.sum(axis=1)[:4]})"))
                                break
                            if not intercept and M.sum(axis=1).max() > 1 + 1e-8:
                                problems.append(("bs", f"bs{kw}: row sum {M.sum(axis=1).max():.6f} exceeds one on {what}"))
                                break
                        if len(problems) > 8:
                            return


def check_poly(x, problems, acc, cond):
    ndist = len(set(x.tolist()))
    n = len(x)
    for degree in range(1, 7):
        acc.calls += 2
        R = np.asarray(T("poly")(x, degree, raw=True), dtype=float)
        want = np.column_stack([x ** k for k in range(1, degree + 1)])
        if R.shape != want.shape or not np.array_equal(R, want):
            problems.append(("poly", f"poly(x, {degree}, raw=True) is not exactly the powers x..x^{degree}"))
        if ndist <= degree:
            continue
        acc.traces += 1
        t = T("poly")
        try:
            P = np.asarray(t(x, degree), dtype=float)
        except Exception as e:
            problems.append(("poly", f"poly(x, {degree}) raised {type(e).__name__}: {e}"))
            continue
        if P.shape != (n, degree):
            problems.append(("poly", f"poly(x, {degree}) has shape {P.shape}"))
            continue
        tol = 1e-7 * cond ** 0.5 * 10 ** degree
        G = P.T @ P
        if not np.allclose(G, np.eye(degree), rtol=0, atol=tol):
            problems.append(("poly", f"poly(x, {degree}): columns are not orthonormal (max deviation {np.abs(G - np.eye(degree)).max():.2e}, tol {tol:.1e})"))
        if np.abs(P.sum(axis=0)).max() > tol:
            problems.append(("poly", f"poly(x, {degree}): columns are not orthogonal to the constant ({np.abs(P.sum(axis=0)).max():.2e})"))
        if cond <= 1.0:
            xs = (x - x.mean()) / (x.max() - x.min())
            V = np.column_stack([xs ** k for k in range(0, degree + 1)])
            try:
                ok, rep = linalg.same_span(np.column_stack([np.ones(n), P]), V)
                if not ok:
                    problems.append(("poly", f"poly(x, {degree}): [1, P] does not span the polynomials of degree <= {degree} ({rep})"))
            except linalg.Undecided:
                acc.undecided += 1
        again = np.asarray(t(x, degree), dtype=float)
        if not np.allclose(again, P, rtol=0, atol=1e-12):
            problems.append(("poly", f"poly(x, {degree}): re-applying to the training data gives another result"))


def check_invalid(case, acc):
    x = np.array([0.0, 1.0, 2.0, 5.0, 3.0, 4.0])
    bad = [
        dict(), dict(df=3, degree=-1), dict(df=3, degree=1.5), dict(df=2, degree=3), dict(df=3, degree=3, intercept=True), dict(df="4"), dict(df=4.5),
        dict(knots=[6.0]), dict(knots=[-1.0]), dict(knots=[1.0], lower_bound=2.0), dict(knots=[3.0], upper_bound=2.5), dict(df=4, lower_bound=3.0, upper_bound=1.0),
        dict(df=3, lower_bound=9.0), dict(df=3, upper_bound=-2.0), dict(df=3, degree=2, intercept=True, lower_bound=6.0), dict(df=4, degree=3, upper_bound=-0.5),
        dict(df=5, knots=[1.0]), dict(df=4, knots=[1.0, 2.0, 3.0]), dict(knots=[[1.0, 2.0]]), dict(df=4, degree="3"),
        dict(df=np.float64(4.5)), dict(df=np.float32(4.25)), dict(df=4, degree=np.float64(2.5)), dict(df=np.sqrt(20.0)), dict(df=5, degree=np.float16(1.5)),  # fractional NumPy scalars
    ]
    # every position of one knot outside the range among valid ones, in every order of the list
    for outside in (6.0, -1.0, 5.5, -0.25):
        for inside in ([1.0], [1.0, 3.0], [2.0, 4.0, 3.0]):
            for perm in set(itertools.permutations(inside + [outside])):
                bad.append(dict(knots=list(perm)))
                bad.append(dict(knots=np.array(perm)))
    for perm in itertools.permutations([2.5, 1.0, 4.5]):  # explicit bounds: a knot beyond a bound, anywhere in the list
        bad.append(dict(knots=list(perm), lower_bound=1.5, upper_bound=5.0))
        bad.append(dict(knots=list(perm), lower_bound=0.0, upper_bound=4.0))
    problems = []
    for kw in bad:
        acc.calls += 1
        try:
            T("bs")(x, **kw)
            problems.append(f"bs(x, {kw}) was accepted")
        except Exception:
            pass
    good = [dict(knots=list(p_)) for p_ in itertools.permutations([1.0, 3.0, 2.0])] + [dict(knots=[4.5, 0.5]), dict(knots=np.array([3.0, 1.0]), lower_bound=-1, upper_bound=6)]
    good += [dict(df=4), dict(knots=[1.0, 2.0]), dict(df=5, knots=[1.0, 2.0]), dict(df=3, degree=0, intercept=True), dict(knots=[1.0], lower_bound=-1, upper_bound=9), dict(df=4, lower_bound=0, upper_bound=5)]
    for kw in good:
        acc.calls += 1
        try:
            T("bs")(x, **kw)
        except Exception as e:
            problems.append(f"bs(x, {kw}) raised {type(e).__name__}: {e}")
    if problems:
        acc.case(case, "MISMATCH")
        acc.violation("bs-invalid-refused", "mismatch", case, "; ".join(problems[:4]))
    else:
        acc.case(case, "ok", nontrivial=True)


def check_two(case, acc):
    """Two transform instances in one process (and one formula) keep separate parameters."""
    problems = []
    a = np.array([0.0, 1.0, 2.0, 5.0, 3.0])
    b = np.array([10.0, 40.0, 20.0, 90.0, 70.0])
    for name, args in (("poly", (2,)), ("poly", (3,)), ("bs", ()), ("scale", ()), ("center", ())):
        kw = {"df": 4} if name == "bs" else {}
        solo = np.asarray(T(name)(b, *args, **kw), dtype=float)
        t1, t2 = T(name), T(name)
        t1(a, *args, **kw)
        both = np.asarray(t2(b, *args, **kw), dtype=float)
        acc.calls += 3
        if not np.allclose(solo, both, rtol=0, atol=1e-12):
            problems.append(f"{name}: a second instance fitted after a first one gives another result than alone")
    if problems:
        acc.case(case, "MISMATCH")
        acc.violation("instances-independent", "mismatch", case, "; ".join(problems))
    else:
        acc.case(case, "ok", nontrivial=True)


def check_design(case, acc):
    """center/scale through design_matrices: the same affine map for a later frame, also after the frame was edited in place."""
    import pandas as pd
    from formulae import design_matrices

    problems = []
    x = np.array([1.0, 2.0, 5.0, 0.0, 2.0, 1.0])
    df = pd.DataFrame({"y": np.arange(6.0), "x": x, "g": list("ababab")})

    def center(v):  # a helper of the calling script with the name of a built-in transform: the built-in must still be used
        return v - 1000.0

    scale = center  # noqa: F841
    kn = [1.5]  # noqa: F841  (the formulas refer to it)
    kna = np.array([1.5, 3.0])  # an array of the caller used as knots, refilled with other numbers between evaluations
    for f in ("y ~ center(x)", "y ~ scale(x)", "y ~ standardize(x) + (center(x)|g)"):
        acc.calls += 1
        dm = design_matrices(f, df)
        tr = np.asarray(dm.common.design_matrix, dtype=float)[:, 1]
        m, s = x.mean(), x.std()
        want = (x - m) if "center(x)" in f and "standardize" not in f else (x - m) / s
        if not np.allclose(tr, want, rtol=1e-12, atol=1e-12):
            problems.append(f"{f!r}: training column is not the centred / standardised x (a caller-defined function of that name was used?)")
        nd = pd.DataFrame({"y": [0.0, 0.0], "x": [10.0, -3.0], "g": ["a", "b"]})
        for step in range(3):
            acc.calls += 1
            got = np.asarray(dm.common.evaluate_new_data(nd).design_matrix, dtype=float)[:, 1]
            xn = nd["x"].to_numpy(dtype=float)
            want = (xn - m) if "center(x)" in f and "standardize" not in f else (xn - m) / s
            if not np.allclose(got, want, rtol=1e-12, atol=1e-12):
                problems.append(f"{f!r}: later frame x={xn.tolist()} (evaluation {step + 1} of the same frame object) mapped to {got.tolist()}, expected {want.tolist()}")
                break
            nd["x"] = nd["x"] * 2 + 1  # the caller edits its frame in place and evaluates it again
    # histories on one design: good frames, frames the evaluation refuses (column missing / not numeric), training rows again;
    # common and group-specific matrices, every stateful transform
    for f in ("y ~ center(x) + scale(x)", "y ~ 1 + (0 + center(x) | g)", "y ~ (scale(x) | g)", "y ~ x + (standardize(x) | g)",
              "y ~ poly(x, 2)", "y ~ bs(x, df=4)", "y ~ (0 + poly(x, 2) | g)", "y ~ (0 + bs(x, df=3) | g) + center(x)",
              "y ~ poly(x, degree=2)", "y ~ poly(x, 2, raw=True)", "y ~ poly(x, degree=3, raw=True) + (0 + poly(x, degree=2) | g)", "y ~ bs(x, degree=2, df=4)", "y ~ bs(x, knots=kn, intercept=True)",
              "y ~ (poly(x, raw=True, degree=2) | g)", "y ~ bs(x, knots=kna)", "y ~ (0 + bs(x, knots=kna, degree=2) | g)"):
        kna[:] = [1.5, 3.0]
        acc.calls += 2
        try:  # not from the initial state: the same text was fitted to other data before (other location, spread and range)
            design_matrices(f, pd.DataFrame({"y": np.arange(7.0), "x": [40.0, 55.0, 47.5, 61.0, 52.0, 44.0, 58.5], "g": list("abababa")}))
        except Exception:
            pass
        dm = design_matrices(f, df)
        mats = [(w, M, np.array(M.design_matrix, dtype=float, copy=True)) for w, M in (("common", dm.common), ("group", dm.group)) if M is not None]
        m, s = x.mean(), x.std()
        events = [("ints", [0, 1, 2, 3]), ("good", [10.0, -3.0]), ("rows", [4, 1]), ("missing", None), ("rows", [0, 5, 2]), ("good", [0.5, 7.0]), ("text", None), ("rows", [3, 3]), ("good", [2.0, 2.0])]
        for step, (kind, arg) in enumerate(events):
            if step == 2 and "kna" in f:
                kna[:] = [4.5, 0.5]  # the caller reuses its array: the design keeps the knots it was built with
            if kind == "good":
                nd = pd.DataFrame({"y": [0.0, 0.0], "x": arg, "g": ["a", "b"]})
            elif kind == "rows":
                nd = df.iloc[arg].reset_index(drop=True)
            elif kind == "ints":  # the same numbers in an integer-typed later frame
                nd = df.iloc[arg].reset_index(drop=True)
                nd["x"] = nd["x"].astype("int64")
            elif kind == "missing":
                nd = pd.DataFrame({"y": [0.0, 0.0], "g": ["a", "b"]})
            else:
                nd = pd.DataFrame({"y": [0.0, 0.0], "x": ["p", "q"], "g": ["a", "b"]})
            for which, M, train in mats:
                acc.calls += 1
                try:
                    r = M.evaluate_new_data(nd)
                except Exception:
                    continue  # refusing a frame is fine; what matters is the next accepted one
                if kind in ("missing", "text"):
                    continue
                got = np.asarray(r.design_matrix, dtype=float)
                msg = None
                if kind in ("rows", "ints"):
                    if got.shape != train[arg].shape or not np.allclose(got, train[arg], rtol=1e-9, atol=1e-12):
                        msg = f"training rows {arg} are not reproduced"
                else:
                    xn = np.asarray(arg, dtype=float)
                    for name in r.terms:
                        head = name.split("|")[0]
                        if head not in ("center(x)", "scale(x)", "standardize(x)"):
                            continue
                        want = (xn - m) if head == "center(x)" else (xn - m) / s
                        block = np.asarray(r[name], dtype=float).reshape(len(xn), -1)
                        if which == "group":
                            want = np.column_stack([want * (np.array(["a", "b"]) == lvl) for lvl in ("a", "b")])
                        else:
                            want = want[:, None]
                        if block.shape != want.shape or not np.allclose(block, want, rtol=1e-12, atol=1e-12):
                            msg = f"term {name} for x={arg} is {block.tolist()}, expected {want.tolist()} (training mean {m}, sd {s})"
                if msg:
                    problems.append(f"{f!r}: {which} matrix at step {step + 1} of {[e[0] for e in events]}: {msg}")
                    break
            else:
                continue
            break
    kna[:] = [1.5, 3.0]
    if problems:
        acc.case(case, "MISMATCH")
        acc.violation("center-scale", "design", case, "; ".join(problems[:3]))
    else:
        acc.case(case, "ok", nontrivial=True)


def check_case(case, acc):
    if case.get("design"):
        return check_design(case, acc)
    if case.get("invalid"):
        return check_invalid(case, acc)
    if case.get("two-instances"):
        return check_two(case, acc)
    orig = case
    if "long" in case:
        case = dict(case, v=([0.0, 1.0, 2.0, 5.0] * 301)[case["long"] : case["long"] + 1201])
    x = case["off"] + case["sc"] * np.array(case["v"], dtype=float)
    cond = max(1.0, abs(case["off"]) / case["sc"] / 10.0)
    problems = []
    check_affine(x, problems, cond)
    check_bs(x, problems, acc, cond)
    check_poly(x, problems, acc, cond)
    check_int_dtypes(x, problems, acc)
    if problems:
        acc.case(orig, "MISMATCH", sample=False)
        seen = set()
        for clause, msg in problems:
            if clause not in seen:
                seen.add(clause)
                acc.violation(clause, "contract", orig, f"x={x.tolist() if len(x) < 20 else str(x[:8].tolist()) + ' ... (' + str(len(x)) + ' values)'}: {msg}")
    else:
        acc.case(orig, "ok", nontrivial=len(set(case["v"])) < len(case["v"]) or case["off"] > 0)


def classify(case, clause, sig, detail):
    return "-"


def snippet(case):
    return f"# fmc.checks.c14 case {case!r}"

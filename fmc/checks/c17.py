"""C17 - matrix containers are internally consistent (invariants on every reachable object; DESIGN.md 3, C17)."""
import itertools

import numpy as np
import pandas as pd

from fmc import frames

ID = "C17"
RULE = (
    "breadth-first exploration of the objects reachable from every design of the pool by evaluate_new_data edges "
    "(frames: sub-frame, reversed frame, frame with an unseen group of g, of h, of both) up to depth 2 (3 thorough), "
    "from the common, group and (proportion) response matrices; the container invariants are evaluated on every "
    "object reached and re-evaluated on all earlier objects after every step; the object reached by root->A->B must "
    "equal the one reached by root->B.  States are (design, path); non-trivial: the path contains an unseen group or "
    "the design has a multi-column term"
    '  Added: offsets, float levels that agree to six digits, level lists longer than a printed line, a '
    'single-level factor, designs without response / without common part (each member on its own printed line '
    'with its own shape), non-default index labels, a later design on another frame, an in-place edit followed '
    'by re-evaluation, the one-row frame. '
    'Later: shared effect sides, repeated index labels with incomplete rows, 1500-row frames, label lists '
    'extended by the caller, blank-variant and float levels, every design once more under changed process-wide '
    'settings. '
)
ASSUMPTIONS = ["unseen groups are evaluated in 'silent' mode", "a label view of a widened group matrix is not demanded"]

POOL = [
    "y ~ x", "y ~ f", "y ~ 0 + f:g + x", "y ~ f*g + poly(x, 2)", "yc ~ x", "yc[v] ~ f + x", "prop(s, n) ~ x + f", "prop(s, 9) ~ x",
    "y ~ 1", "x + f", "y ~ x + (1|g)", "y ~ (x|g)", "y ~ (f|g)", "y ~ (0 + f|g) + (1|h)", "y ~ (x|g:h) + (0 + f:x|h)",
    "y ~ (x|g) + (x|h)", "y ~ x + (bs(x, df=3)|g)", "y ~ f + (f|g) + (x|h)", "y ~ 0 + C(k) + (1|g/h)", "y ~ (1|h) + (f*x|g)",
    "yc ~ 0 + x + (0 + x|g)", "(x|g)", "x + f + (x|g)", "y ~ 0 + (x|g)", "0 + (f|g)", "y ~ x + (1|fl)", "y ~ 0 + flc + x", "y ~ x + (0 + flc|g)", "y ~ fn + x", "y ~ 0 + C(fn):f + (1|fn)", "y ~ x + (0 + fn|g)", "y ~ (0 + f|g + h) + (1|g)", "y ~ x + (f|g + h) - (1|h)", "y ~ (0 + f:x|g/h) + (1|g)", "y ~ 0 + bs(x, df=4)", "y ~ 0 + bs(x, df=4):f", "y ~ f + poly(x, 3) + (0 + bs(x, df=4)|g)", "y ~ one + x + f", "y ~ x + one + (1|g) + (0 + x|g)", "y ~ x + offset(s) + f", "y ~ offset(2.5) + (1|g)", "y ~ C(fl) + x", "y ~ x + (1|C(fl))", "ylong ~ x + flong", "ylong ~ 0 + x + (flong|g)",  # 'one' has a single level: a term without columns
]
FRAMES = ["sub", "rev", "newg", "newh", "newgh", "one", "long"]
FRAMES_T = FRAMES + ["dup"]
_DF = None


def train():
    global _DF
    if _DF is None:
        df = frames.factorial({"f": 3, "g": 2, "h": 3, "k": 2}, reps=1, seed=5)
        n = len(df)
        df["yc"] = [["v", "u", "w"][i % 3] for i in range(n)]
        df["n"] = 9
        df["s"] = [i % 7 for i in range(n)]
        df["one"] = "only"
        df["fn"] = [["north", "north ", " north", "South"][i % 4] for i in range(n)]  # levels that differ only in surrounding blanks
        df["fl"] = [[1000001.0, 1000002.0, 0.1 + 0.2, 0.3][i % 4] for i in range(n)]  # distinct levels that agree to 6 significant digits
        df["flc"] = pd.Categorical(df["fl"])  # the same float levels as a Categorical column (used as a plain variable)
        df["ylong"] = [f"a rather long response level number {i % 9}" for i in range(n)]  # printed level lists longer than one line
        df["flong"] = [f"factor level with a long name {(i * 5) % 12:02d}" for i in range(n)]
        _DF = df
    return _DF


_OTHER = None


def other_frame():
    """Another data set with more levels of every factor."""
    global _OTHER
    if _OTHER is None:
        df = frames.factorial({"f": 4, "g": 3, "h": 4, "k": 3}, reps=1, seed=9)
        n = len(df)
        df["yc"] = [["v", "u", "w", "t"][i % 4] for i in range(n)]
        df["n"] = 12
        df["s"] = [i % 5 for i in range(n)]
        df["one"] = "only"
        df["fn"] = [["north", "north ", " north", "South", "north  "][i % 5] for i in range(n)]
        df["fl"] = [[1000001.0, 1000002.0, 0.1 + 0.2, 0.3, 7.5][i % 5] for i in range(n)]
        df["flc"] = pd.Categorical(df["fl"])
        df["ylong"] = [f"a rather long response level number {i % 11}" for i in range(n)]
        df["flong"] = [f"factor level with a long name {(i * 5) % 14:02d}" for i in range(n)]
        _OTHER = df
    return _OTHER


def new_frame(kind):
    df = train()
    if kind == "sub":
        return df.iloc[[1, 4, 9, 16, 25]].reset_index(drop=True)
    if kind == "rev":
        return df.iloc[::-1]  # labels kept: n-1 .. 0
    if kind == "one":
        return df.iloc[[13]].reset_index(drop=True)
    if kind == "dup":
        return df.iloc[[2, 2, 2, 8, 8]].reset_index(drop=True)
    if kind == "long":  # 1500 rows: more than 1024, and not a multiple of it
        return pd.concat([df] * 42, ignore_index=True).iloc[:1500]
    nd = df.iloc[[0, 5, 11, 20]].reset_index(drop=True).copy()
    if kind in ("newg", "newgh"):
        g = nd["g"].astype(object)
        g[1] = "G_NEW"
        g[3] = "G_NEW2"
        nd["g"] = g
    if kind in ("newh", "newgh"):
        h = nd["h"].astype(object)
        h[0] = "H_NEW"
        nd["h"] = h
    nd.index = [9, 4, 7, 2]  # filtered / sorted new data: labels are not 0..n-1
    return nd


def units(tier, seed):
    depth = 2 if tier == "quick" else 3
    pool = list(POOL)
    if tier == "thorough":
        pool += ["y ~ f:g:x + (x|g)", "y ~ scale(x) + (scale(x) + f|g)", "y ~ (1|g) + (1|h) + (1|g:h)", "y ~ 0 + f + (0 + f:x|g) + (x|h)", "yc ~ f*x + (f|h)",
                 "prop(s, n) ~ f + (1|g)", "y ~ poly(x, 3) + (poly(x, 2)|g)", "y ~ (C(k)|g) + (x|C(k))"]
    # every design once more with process-wide settings changed that nothing may depend on (numpy print options incl. the legacy
    # scalar formatting, pandas display options, object-typed text columns)
    return [[{"design": d, "depth": depth, "tier": tier}] for d in pool] + [[{"design": d, "depth": 1, "tier": tier, "perturbed": True}] for d in pool]


def expand(unit):
    return unit


def slices_ok(M, what, problems):
    dmx = np.asarray(M.design_matrix)
    ncol = dmx.shape[1] if dmx.ndim == 2 else 1
    names = list(M.terms)
    if list(M.slices) != names:
        problems.append(("slices", f"{what}: slice keys {list(M.slices)} are not the term names in order {names}"))
        return
    start = 0
    for nme in names:
        s = M.slices[nme]
        if s.start != start or s.stop < s.start or s.step not in (None, 1):
            problems.append(("slices", f"{what}: slice of {nme!r} is {s}, expected to start at {start}"))
            return
        start = s.stop
        sub = M[nme]
        if not np.array_equal(np.asarray(sub), dmx[:, s], equal_nan=True):
            problems.append(("getitem", f"{what}: [{nme!r}] is not the slice {s} of the matrix"))
    if start != ncol:
        problems.append(("slices", f"{what}: slices cover columns 0:{start} but the matrix has {ncol} columns"))
    for bad in ("__no_such_term__", "", "Intercept "):
        try:
            M[bad]
            problems.append(("getitem", f"{what}: unknown term name {bad!r} was not refused"))
        except (ValueError, KeyError):
            pass
        except Exception as e:
            problems.append(("getitem", f"{what}: unknown term name {bad!r} raised {type(e).__name__}"))


def views_ok(M, what, problems, has_df=True, widened=False):
    dmx = np.asarray(M.design_matrix)
    if not np.array_equal(np.asarray(M), dmx, equal_nan=True) or not np.array_equal(np.array(M), dmx, equal_nan=True):
        problems.append(("views", f"{what}: numpy conversion differs from design_matrix"))
    if has_df:
        try:
            d = M.as_dataframe()
            if d.shape != (dmx.shape[0], dmx.shape[1] if dmx.ndim == 2 else 1) or not np.array_equal(d.to_numpy(dtype=float), np.asarray(dmx, dtype=float).reshape(d.shape), equal_nan=True):
                problems.append(("views", f"{what}: as_dataframe() differs from design_matrix"))
            if len(set(d.columns)) != len(d.columns):
                problems.append(("labels", f"{what}: duplicate column labels {list(d.columns)}"))
        except Exception as e:
            problems.append(("views", f"{what}: as_dataframe() raised {type(e).__name__}: {e}"))
    for fn in (str, repr):
        try:
            txt = fn(M)
            if str(dmx.shape) not in txt:
                problems.append(("printing", f"{what}: {fn.__name__}() does not report the shape {dmx.shape}"))
        except Exception as e:
            problems.append(("printing", f"{what}: {fn.__name__}() raised {type(e).__name__}: {e}"))


def group_labels_ok(M, what, problems):
    labs = []
    for name, t in M.terms.items():
        w = M.slices[name].stop - M.slices[name].start
        if t.labels is not None and len(t.labels) == w:
            labs += t.labels
        elif w == len(t.labels):
            pass
    if len(set(labs)) != len(labs):
        problems.append(("labels", f"{what}: duplicate group labels"))


def check_object(kind, M, nrows, what, problems, widened=False):
    dmx = np.asarray(M.design_matrix)
    if dmx.shape[0] != nrows:
        problems.append(("rows", f"{what}: {dmx.shape[0]} rows for {nrows} observations"))
    if kind == "response":
        views_ok(M, what, problems, has_df=True)
        return
    slices_ok(M, what, problems)
    views_ok(M, what, problems, has_df=(kind == "common"))
    if kind == "group":
        group_labels_ok(M, what, problems)
        if not widened:
            for name, t in M.terms.items():
                w = M.slices[name].stop - M.slices[name].start
                if t.labels is None or len(t.labels) != w:
                    problems.append(("labels", f"{what}: term {name!r} has {None if t.labels is None else len(t.labels)} labels for {w} columns"))


def snapshot(kind, M):
    out = {"m": np.array(M.design_matrix, dtype=float, copy=True)}
    if kind != "response":
        out["s"] = {k: (v.start, v.stop) for k, v in M.slices.items()}
    if kind == "group":
        out["f"] = tuple(M.factors_with_new_levels)
    return out


def same(a, b):
    return a.keys() == b.keys() and np.array_equal(a["m"], b["m"], equal_nan=True) and a.get("s") == b.get("s") and a.get("f") == b.get("f")


def check_case(case, acc):
    import formulae
    from formulae import design_matrices
    from fmc.core import exc_sig

    d, depth = case["design"], case["depth"]
    if case.get("perturbed"):
        from fmc import warmup

        warmup.perturb_settings()
    formulae.config["EVAL_UNSEEN_CATEGORIES"] = "silent"
    df = train()
    problems = []
    try:
        acc.calls += 1
        dm = design_matrices(d, df)
        resp, common, group = dm
        if resp is not dm.response or common is not dm.common or group is not dm.group or dm[0] is not dm.response or dm[1] is not dm.common or dm[2] is not dm.group:
            problems.append(("views", "tuple unpacking / indexing does not return response, common, group"))
        n = len(df)
        roots = []
        if dm.response is not None:
            check_object("response", dm.response, n, "root response", problems)
            if dm.response.kind == "proportion":
                roots.append(("response", dm.response))
        if dm.common is not None:
            check_object("common", dm.common, n, "root common", problems)
            roots.append(("common", dm.common))
        if dm.group is not None:
            check_object("group", dm.group, n, "root group", problems)
            roots.append(("group", dm.group))
        for fn in (str, repr):
            txt = fn(dm)
            for M in (dm.response, dm.common, dm.group):
                if M is not None and str(np.asarray(M.design_matrix).shape) not in txt:
                    problems.append(("printing", f"{fn.__name__}(design) does not report the shape {np.asarray(M.design_matrix).shape}"))
            # each member is reported on its own line, with its own shape; a member the design does not have is not reported
            for label, M in (("Response:", dm.response), ("Common:", dm.common), ("Group-specific:", dm.group)):
                lines = [ln for ln in txt.splitlines() if ln.strip().startswith(label)]
                if M is None and lines:
                    problems.append(("printing", f"{fn.__name__}(design) has a {label!r} line although the design has no such member"))
                if M is not None and (len(lines) != 1 or not lines[0].rstrip().endswith(str(np.asarray(M.design_matrix).shape))):
                    problems.append(("printing", f"{fn.__name__}(design): the {label!r} line {lines} does not report the shape {np.asarray(M.design_matrix).shape}"))
        has_groups = dm.group is not None
        thorough = case.get("tier") == "thorough"
        frames_here = (FRAMES_T if thorough else FRAMES) if has_groups else (["sub", "rev", "one", "dup", "long"] if thorough else ["sub", "rev", "one", "long"])
        direct = {}
        nstates = 0
        for kind, root in roots:
            # breadth-first over paths; every object ever reached stays alive and is re-checked after each step
            alive = [((), root, len(df), snapshot(kind, root))]
            level = [((), root)]
            for dep in range(1, depth + 1):
                nxt = []
                for path, obj in level:
                    for fk in frames_here:
                        nd = new_frame(fk)
                        acc.calls += 1
                        acc.traces += 1
                        p2 = path + (fk,)
                        what = f"{kind} via {'->'.join(p2)}"
                        try:
                            if kind == "response":
                                child = obj.evaluate_new_data(nd)
                                # the response returns the trials of the new frame, not a matrix object
                                tr = np.asarray(child)
                                expn = nd["n"].to_numpy() if "s, n" in d else np.ones(len(nd)) * 9
                                if tr.shape[0] != len(nd) or not np.array_equal(np.asarray(tr, dtype=float).reshape(-1), np.asarray(expn, dtype=float)):
                                    problems.append(("rows", f"{what}: response.evaluate_new_data does not report the trials of the new frame"))
                                continue
                            child = obj.evaluate_new_data(nd)
                        except Exception as e:
                            problems.append(("derived-exists", f"{what}: evaluate_new_data raised {type(e).__name__}: {e}"))
                            continue
                        nstates += 1
                        widened = kind == "group" and any(k.startswith("new") for k in p2[-1:])
                        check_object(kind, child, len(nd), what, problems, widened=widened)
                        snap = snapshot(kind, child)
                        # differential: reached from elsewhere
                        key = (kind, fk)
                        if dep == 1:
                            direct[key] = snap
                        elif key in direct and not same(direct[key], snap):
                            problems.append(("reached-from-elsewhere", f"{what} differs from {kind} via {fk} alone (matrix, slices or factors_with_new_levels)"))
                        if kind == "group":
                            expf = {"sub": (), "rev": (), "one": (), "dup": (), "newg": "g", "newh": "h", "newgh": "gh", "long": ()}[fk]
                            got = child.factors_with_new_levels
                            facs = [t.factor.name for t in child.terms.values()]
                            want = tuple(dict.fromkeys(f_ for f_ in facs if any(c in f_.split(":") for c in expf)))
                            if tuple(got) != want:
                                problems.append(("factors-with-new-levels", f"{what}: factors_with_new_levels {got}, expected {want}"))
                        # the caller changes its frame in place (other values, one row fewer) and evaluates it again from the same parent
                        if dep == 1 and kind != "response" and len(nd) > 1:
                            nd2 = new_frame(fk)
                            try:
                                obj.evaluate_new_data(nd2)
                                nd2.drop(index=nd2.index[-1], inplace=True)
                                if "x" in nd2:
                                    nd2["x"] = nd2["x"] * 2 + 1
                                acc.calls += 2
                                again = obj.evaluate_new_data(nd2)
                                fresh = obj.evaluate_new_data(nd2.copy())
                                check_object(kind, again, len(nd2), what + " (frame edited in place, evaluated again)", problems, widened=widened)
                                if not same(snapshot(kind, again), snapshot(kind, fresh)):
                                    problems.append(("rows", f"{what}: after the frame was edited in place the result differs from that of an equal new frame"))
                            except Exception as e:
                                problems.append(("derived-exists", f"{what}: re-evaluation after an in-place edit raised {type(e).__name__}: {e}"))
                        alive.append((p2, child, len(nd), snap))
                        nxt.append((p2, child))
                        # every earlier object must still satisfy the invariants and be unchanged
                        for (pp, o, nr, sn) in alive[:-1]:
                            before = len(problems)
                            if not same(sn, snapshot(kind, o)):
                                problems.append(("earlier-object-unchanged", f"{kind} via {'->'.join(pp) or 'root'} changed after {what} was created"))
                            else:
                                tmp = []
                                slices_ok(o, f"{kind} via {'->'.join(pp) or 'root'} (after {what})", tmp)
                                problems.extend(tmp[:1])
                            if len(problems) > before + 3:
                                break
                level = nxt
                if len(problems) > 30:
                    break
        # a later design from the same formula text on other data must leave this one consistent
        acc.calls += 1
        try:
            design_matrices(d, other_frame())
        except Exception:
            pass
        for kind, root in roots:
            if kind != "response":
                tmp = []
                check_object(kind, root, len(df), f"root {kind} after the same formula was built on another frame", tmp)
                problems.extend([("earlier-object-unchanged", m) for _, m in tmp[:1]])
        # the lists of labels handed out belong to the caller: extending them leaves every view consistent
        for kind, root in roots:
            if kind == "response":
                continue
            for t in root.terms.values():
                handed = t.labels
                if isinstance(handed, list):
                    handed += ["junk label"]
            tmp = []
            check_object(kind, root, len(df), f"root {kind} after the caller extended the label lists it was handed", tmp)
            problems.extend([("earlier-object-unchanged", m) for _, m in tmp[:1]])
        # the same data 42 times over (1512 rows): one row per observation in every member
        acc.calls += 1
        dm4 = design_matrices(d, pd.concat([df] * 42, ignore_index=True))
        for kind, M in (("response", dm4.response), ("common", dm4.common), ("group", dm4.group)):
            if M is not None:
                check_object(kind, M, 42 * len(df), f"{kind} of the 1512-row frame", problems)
        # the same data with repeated index labels and two incomplete rows: one row per retained observation, in every member
        dup = df.copy()
        dup.index = [i // 3 for i in range(len(dup))]
        import re

        used_num = [c for c in ("x", "s", "y") if c in set(re.findall(r"[A-Za-z_][A-Za-z0-9_]*", d))]
        if used_num:
            col = dup.columns.get_loc(used_num[0])
            dup[used_num[0]] = dup[used_num[0]].astype(float)
            dup.iloc[[4, 17], col] = np.nan
            acc.calls += 1
            dm3 = design_matrices(d, dup)
            for kind, M in (("response", dm3.response), ("common", dm3.common), ("group", dm3.group)):
                if M is not None:
                    check_object(kind, M, len(dup) - 2, f"{kind} of the frame with repeated index labels and two incomplete rows", problems)
        acc.subcases(case, nstates, True, "derived-objects")
    except Exception as e:
        problems.append(("design-exists", f"{d!r} raised {type(e).__name__}: {e} @ {exc_sig(e)}"))
    finally:
        formulae.config["EVAL_UNSEEN_CATEGORIES"] = "error"
    if problems:
        acc.case(case, "MISMATCH", sample=False)
        seen = set()
        for clause, msg in problems:
            if clause not in seen:
                seen.add(clause)
                acc.violation(clause, "invariant", case, f"{d!r}: {msg}")
    else:
        acc.case(case, "ok", nontrivial=True)


def classify(case, clause, sig, detail):
    return "-"


def snippet(case):
    return f"from fmc.checks import c17\nfrom formulae import design_matrices\ndm = design_matrices({case['design']!r}, c17.train())"

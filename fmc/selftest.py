"""Hand-checked expectations that pin the reference models (run by MANIFEST.setup_cmd)."""
import sys


def t_algebra():
    from fmc.refmodel import algebra as A

    a, b, c = ("a", "a"), ("a", "b"), ("a", "c")
    fs = lambda *xs: frozenset(frozenset(x) for x in xs)
    assert A.ev(("*", a, b)).terms == fs("a", "b", "ab")
    assert A.ev(("/", a, b)).terms == fs("a", "ab")
    assert A.ev(("/", ("+", a, b), c)).terms == fs("a", "b", "abc")  # R: (a+b)/c = a + b + a:b:c
    assert A.ev(("**", ("+", ("+", a, b), c), 2)).terms == fs("a", "b", "c", "ab", "ac", "bc")
    assert A.ev(("-", ("*", a, b), a)).terms == fs("b", "ab")
    assert A.ev((":", ("+", a, b), ("+", a, c))).terms == fs("a", "ac", "ab", "bc")
    t, i, g = A.model_of(("+", a, ("|", ("+", ("lit", "0"), b), c)))
    assert g == {(frozenset("b"), frozenset("c"))} and i and t == fs("a")
    t, i, g = A.model_of(("|", b, ("+", c, a)))
    assert g == {("1", frozenset("c")), ("1", frozenset("a")), (frozenset("b"), frozenset("c")), (frozenset("b"), frozenset("a"))}
    assert A.model_of(("+", a, ("lit", "0")))[1] is False
    assert A.model_of(("+", ("+", ("lit", "0"), a), ("lit", "1")))[1] is True
    assert A.model_of(("-", a, ("lit", "1")))[1] is False
    assert A.render(("+", ("+", a, (":", ("+", a, b), c)), ("|", ("+", ("lit", "0"), b), c))) == "a + ((a + b):c) + (0 + b | c)"


def main():
    n = 0
    for name, fn in sorted(globals().items()):
        if name.startswith("t_") and callable(fn):
            fn()
            n += 1
    print(f"fmc selftest: {n} groups ok")
    return 0


if __name__ == "__main__":
    sys.exit(main())

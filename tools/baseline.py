#!/usr/bin/env python3
"""Run the repository's pinned suite (BASELINE.json) and compare with the stable-pass set.
usage: baseline.py [repo_dir]   exit 0 iff every stable test passes."""
import json, os, subprocess, sys, tempfile, xml.etree.ElementTree as ET
repo = sys.argv[1] if len(sys.argv) > 1 else "/repo"
base = json.load(open("/root/.vp/BASELINE.json"))
fd, xml = tempfile.mkstemp(suffix=".xml"); os.close(fd)
env = dict(os.environ); env.pop("FORMULAE_VERIF", None); env["PYTHONDONTWRITEBYTECODE"] = "1"
subprocess.run(["/venv/bin/python", "-m", "pytest", "-ra", "-q", "-p", "no:cacheprovider", "--timeout=900",
                "--continue-on-collection-errors", f"--junitxml={xml}"], cwd=repo, env=env,
               stdout=subprocess.DEVNULL, stderr=subprocess.DEVNULL)
passed = set()
for tc in ET.parse(xml).getroot().iter("testcase"):
    if not any(ch.tag in ("failure", "error", "skipped") for ch in tc):
        passed.add(f"{tc.get('classname')}::{tc.get('name')}")
os.unlink(xml)
missing = [t for t in base["stable_pass"] if t not in passed]
print(f"baseline: {len(base['stable_pass']) - len(missing)}/{len(base['stable_pass'])} stable tests pass")
for m in missing: print("  NOT PASSING:", m)
sys.exit(1 if missing else 0)

#!/usr/bin/env python3
"""Run every quick check against each behaviour-preserving patch under a directory (expected: all exit 0).
usage: refcheck.py <dir with */patch.diff> [--jobs N] [Cxx ...]"""
import glob, os, subprocess, sys, tempfile, shutil
from concurrent.futures import ThreadPoolExecutor
HERE = os.path.dirname(os.path.dirname(os.path.abspath(__file__)))  # the snapshot this script belongs to
args = sys.argv[1:]
jobs = 1
if "--jobs" in args:
    i = args.index("--jobs"); jobs = int(args[i + 1]); del args[i : i + 2]
root = args[0]
checks = args[1:] or [f"C{i:02d}" for i in range(1, 18)]


def one(pd_):
    name = os.path.basename(os.path.dirname(pd_))
    wt = tempfile.mkdtemp(prefix="fmc_rf_", dir="/tmp"); os.rmdir(wt)
    subprocess.run(f"git -C /repo worktree add -q --detach {wt} HEAD", shell=True, check=True)
    nbad = 0
    try:
        a = subprocess.run(f"git -C {wt} apply {pd_}", shell=True, capture_output=True, text=True)
        if a.returncode:
            print(f"{name}: patch does not apply ({a.stderr.strip()[:120]})", flush=True); return 0
        b = subprocess.run(f"python3 {HERE}/tools/baseline.py {wt}", shell=True, capture_output=True, text=True)
        res = []
        for c in checks:
            r = subprocess.run(f"/venv/bin/python -m fmc check {c} --tier quick", shell=True, cwd=HERE, capture_output=True, text=True,
                               env=dict(os.environ, FMC_REPO=wt))
            if r.returncode != 0:
                nbad += 1
                first = next((l.strip() for l in r.stdout.splitlines() if l.startswith("  clause=")), r.stdout[-200:] + r.stderr[-300:])
                res.append(f"{c}:exit={r.returncode} {first[:260]}")
        print(f"{name}: {(b.stdout.strip().splitlines() or ['?'])[0]} | " + ("all checks silent" if not res else "ALARMS: " + " || ".join(res)), flush=True)
    finally:
        subprocess.run(f"git -C /repo worktree remove --force {wt}", shell=True)
        shutil.rmtree(wt, ignore_errors=True)
    return nbad


with ThreadPoolExecutor(jobs) as ex:
    bad = sum(ex.map(one, sorted(glob.glob(os.path.join(root, "*", "patch.diff")))))
print("alarms:", bad)

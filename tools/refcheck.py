#!/usr/bin/env python3
"""Run every quick check against each behaviour-preserving patch under a directory (expected: all exit 0).
usage: refcheck.py <dir with */patch.diff> [Cxx ...]"""
import glob, os, subprocess, sys, tempfile, shutil
HERE = os.path.dirname(os.path.dirname(os.path.abspath(__file__)))  # the snapshot this script belongs to
root = sys.argv[1]
checks = sys.argv[2:] or [f"C{i:02d}" for i in range(1, 18)]
bad = 0
for pd_ in sorted(glob.glob(os.path.join(root, "*", "patch.diff"))):
    name = os.path.basename(os.path.dirname(pd_))
    wt = tempfile.mkdtemp(prefix="fmc_rf_", dir="/tmp"); os.rmdir(wt)
    subprocess.run(f"git -C /repo worktree add -q --detach {wt} HEAD", shell=True, check=True)
    try:
        a = subprocess.run(f"git -C {wt} apply {pd_}", shell=True, capture_output=True, text=True)
        if a.returncode:
            print(f"{name}: patch does not apply ({a.stderr.strip()[:120]})"); continue
        b = subprocess.run(f"python3 /verif/tools/baseline.py {wt}", shell=True, capture_output=True, text=True)
        res = []
        for c in checks:
            r = subprocess.run(f"/venv/bin/python -m fmc check {c} --tier quick", shell=True, cwd=HERE, capture_output=True, text=True,
                               env=dict(os.environ, FMC_REPO=wt))
            if r.returncode != 0:
                bad += 1
                first = next((l.strip() for l in r.stdout.splitlines() if l.startswith("  clause=")), r.stdout[-200:] + r.stderr[-300:])
                res.append(f"{c}:exit={r.returncode} {first[:260]}")
        print(f"{name}: {b.stdout.strip().splitlines()[0]} | " + ("all checks silent" if not res else "ALARMS: " + " || ".join(res)), flush=True)
    finally:
        subprocess.run(f"git -C /repo worktree remove --force {wt}", shell=True)
        shutil.rmtree(wt, ignore_errors=True)
print("alarms:", bad)

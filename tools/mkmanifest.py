#!/usr/bin/env python3
"""Regenerate /verif/MANIFEST.json from the table below (one entry per claimed property)."""
import json, os
V = os.path.dirname(os.path.dirname(os.path.abspath(__file__)))
PY = "/venv/bin/python"
CHECKS = {
 "C01": dict(design="3/C01", technique="exhaustive enumeration of character strings and token strings against a reference tokenizer/precedence grammar, differential replay of the fully parenthesised rendering through the implementation",
   text="Bounded exhaustive model checking on the real scanner/parser/resolver: every character string up to length 4 (6 thorough) over 17 characters is compared token by token with a reference tokenizer; every token string up to length 4 over 24 token classes, length 5 over 18 classes (5/6/7 thorough) plus all flat operator chains and unary decorations is classified by a generous reference grammar - a non-sentence must be rejected and the parser cursor must reach EOF; every accepted sentence is replayed as its fully parenthesised form (implicit intercept explicit), with each sub-expression wrapped in redundant parentheses and in every whitespace variant, and must give the identical model.",
   note="Trusts the reference tokenizer and precedence table (fmc/refmodel/grammar.py); strings longer than the bounds and call-argument semantics (C12) are not covered; acceptance is never demanded."),
 "C02": dict(design="3/C02", technique="exhaustive enumeration of operator trees against a frozenset reference model of the term algebra",
   text="Bounded exhaustive model checking on the real code: every operator tree up to 4 leaves (5 in the thorough tier) over five atoms, every (E|G) stratum and every placement of 0/1/-1 at additive positions is run through model_description and compared with an independent set-semantics reference model; all reference expectations are replayed on the implementation.",
   note="Trusts the reference algebra (fmc/refmodel/algebra.py, pinned by selftests) and Python; trees beyond the leaf bound are not covered."),
 "C03": dict(design="3/C03", technique="exhaustive enumeration of term families, term orders and factor orders on complete-factorial frames; rank/span comparison with a complete-indicator reference matrix",
   text="Bounded exhaustive model checking on the real design_matrices: all 127 (thorough: all 32767) families of interaction terms over 3 (4) two-level factors with/without intercept in every term order (<= 4 terms) or sorted/reversed/rotated order, further level-count vectors, every ordered family of <= 2 (<= 3) terms with every factor order over f g h x (z), and every C/T/S/scale/poly/bs atom substitution; each common matrix must have full column rank and exactly the span of the reference coding.",
   note="Trusts numpy SVD with a gap check (ambiguous -> undecided, never a violation), the genericity argument for one seeded numeric draw, and the complete-indicator reference (fmc/frames.py); families beyond the bounds are not covered."),
 "C04": dict(design="3/C04", technique="exhaustive enumeration of formulas x frames (dtype variants, row counts); every label interpreted by a reference label semantics and compared with its column",
   text="Bounded exhaustive model checking on the real design_matrices: every generated formula (all interactions of arity 2-3 in every factor order over two categoricals, an integer-via-C factor and two numerics, alone / with margins / with and without intercept, group-specific terms, numeric / categorical / y[level] responses) on every generated frame (str, unordered and ordered Categorical with declared non-sorted order, unequal level counts, several row counts): each column must equal the meaning of its label, labels and columns equal in number and order, levels sorted or in declared order.",
   note="Trusts the reference label semantics in fmc/checks/c04.py; Sum-coded pieces are C13's business; frames where a declared category is unobserved are not generated."),
 "C05": dict(design="3/C05", technique="exhaustive enumeration of effect x grouping expressions on fully crossed and holed frames; block-structure invariant and rank/span comparison with the complete-indicator reference",
   text="Bounded exhaustive model checking on the real design_matrices: every effect expression of the pool (with and without 0 +) crossed with every grouping expression (g, g:h, h:g, g + h, g/h, C(k)) and pairs of terms sharing a factor, on fully crossed frames for 4 (thorough: all 32) level-count vectors over {2,3} and on frames with missing cells: every block must be [cell indicator] x [effect columns] in lexicographic cell order with the effect columns its labels announce, and the columns of one grouping factor must be independent and span all group-by-cell means.",
   note="Trusts SVD rank with gap check and the reference coding; the 8 effect expressions for which the library's simplified coding rule fails are recorded findings (KNOWN_FINDINGS.txt), matched by effect expression, clause and signature."),
 "C06": dict(design="3/C06", technique="exhaustive enumeration of formulas x row multisets of the training frame; differential comparison of evaluate_new_data with the training rows",
   text="Bounded exhaustive model checking on the real code: for every formula of the pool (every stateful transform alone, nested, interacting; C/T/S with options; ordered categoricals; a user-registered transform; group-specific terms) on two dtype variants of an 8-row frame, evaluate_new_data is run on every row sequence of length <= 2 (<= 3 thorough), every leave-one-level-out subset, the frame, its reverse and a triplicated frame, and must reproduce exactly the corresponding training rows for the common and group matrices.",
   note="Trusts numpy closeness at rtol 1e-9; frames containing values not in the training frame are C10's business."),
 "C10": dict(design="3/C10", technique="exhaustive enumeration of designs x unseen-value placements x modes, plus all event histories of length <= 3 over mode changes and evaluations; expectations derived from the clean-frame evaluation",
   text="Bounded exhaustive model checking on the real code: for every design of the pool and every placement of unseen values (every non-empty row subset of a 3-row frame per variable, variables pairwise) in each of the three modes, the common and group matrices, slices, factors_with_new_levels, warnings and exceptions are compared with expectations derived from evaluating the same frame with the unseen cells replaced by a seen level; every history of <= 3 events over {set mode x3, evaluate common, evaluate group} on one frame object checks that the mode in force at evaluation time decides; configuration keys/values outside the documented ones must be refused and leave the mode unchanged.",
   note="Unseen groups in 'error' mode are not demanded; only UserWarnings raised from formulae's files count as formulae's warnings."),
 "C17": dict(design="3/C17", technique="explicit-state breadth-first search over objects reachable by evaluate_new_data edges; container invariants on every state, re-checked on all earlier objects after every transition; reached-from-elsewhere differential",
   text="Explicit-state BFS on the real objects: from every design of the pool (22 formulas incl. categorical / y[level] / proportion responses, no response, multi-column numeric terms, composite and multiple grouping factors) every matrix object reachable by evaluate_new_data over 5 frames (sub-frame, reversed, unseen group of g, of h, of both) to depth 2 (3 thorough) is checked: contiguous covering slices in term order, indexing by name, refusal of unknown names, agreement of data-frame / numpy / tuple views, unique labels, row counts, printing reports the actual shape; all earlier objects are re-checked after every step and root->A->B must equal root->B.",
   note="Unseen groups are evaluated in silent mode; a label view of a widened group matrix is not demanded."),
 "C07": dict(design="3/C07", technique="explicit-state exhaustive exploration of operation histories (build / evaluate / set-config / describe / edit-frame) on the real code, each event compared with the same event in a fresh process-state; observable-snapshot invariants after every event",
   text="Stateless exhaustive exploration of histories on the real code, each from a clean forked process: all histories of <= 3 (<= 4 thorough) events over build(6 specs chosen to collide: twin formulas, same formula on other data, shared transform call texts, NaN in columns other specs use) / evaluate-common / evaluate-group (4 frames per spec: sub-frame, permuted, other mean, unseen level + new group; the caller's frame objects are reused) / set-config / model_description, plus all deviation-bounded 5-event histories [set mode, build, evaluate X, any one event incl. an in-place edit of the frame, evaluate X again]. After every event its observation must equal the one from a fresh process-state (reference table built in forked pristine processes and cross-checked in real fresh interpreters under other PYTHONHASHSEEDs), and every existing design, every earlier result, the caller's frames and namespace must be observably unchanged.",
   note="Fresh state is a process forked from the pristine parent plus fresh interpreters for the table; only observables are compared (a benign internal cache is not a violation); histories longer than the bounds are not covered."),
 "C08": dict(design="3/C08", technique="exhaustive enumeration of row permutations (full symmetric group on 5 rows, Cayley-graph BFS to depth 2 on 8 rows), index alphabets, column orders and unused-column subsets; metamorphic comparison of two runs",
   text="Bounded exhaustive model checking on the real design_matrices: for 42 formulas, all 120 row permutations of a 5-row frame, all frames within Cayley distance 2 of an 8-row frame (adjacent transpositions, rotation, reversal; with and without an incomplete row), 8 index alphabets incl. duplicated/mixed/MultiIndex labels, all 24 orders of four used columns and every subset of four unused columns: response, common and group matrices must be the row-permuted originals with identical labels, levels, slices and the same encoding of a probe frame; index and column changes must change nothing at all.",
   note="Tolerance rtol 1e-9 for permuted reductions; only the 5-row space is orbit-closed; fitted parameters are observed through the encoding of a fixed probe frame."),
 "C09": dict(design="3/C09", technique="exhaustive enumeration of missingness patterns (all single cells, all pairs in rows 0-3, whole-row patterns over column subsets) x policies against the clean-frame reference with hand-written used-variable sets",
   text="Bounded exhaustive model checking on the real design_matrices: for 33 formulas in which 'used' is non-trivial (call arguments, keyword arguments, nested calls, operators in I()/{}, back-quoted names, interactions, group effects and factors, responses incl. calls, y[level], prop) and every missingness pattern of the space over used columns plus three unused ones (one named like a keyword argument): drop == design of the clean frame without exactly the rows missing a used variable, the three matrices row-aligned; error raises ValueError iff such a row exists; pass keeps all rows with NaN in exactly the derived columns (pointwise numeric formulas); other na_action values refused.",
   note="The used-variable set per formula is written by hand in the check; pass is not demanded for categorical or stateful terms."),
 "C11": dict(design="3/C11", technique="exhaustive enumeration of scope-definition subsets x roles x name kinds x env depths through generated nested callers; first-match reference model of the lookup order",
   text="Complete enumeration on the real design_matrices: for names used as call argument (recording probe), as callee, as dotted callee (ns.fn, ns.sub.fn) and as back-quoted argument, for a plain name and the name of a built-in, and for env depths 0..3 reached through four generated nested callers each with its own locals and globals: every subset of {data, locals_k, globals_k, extra_namespace} defines the name with a distinct marker while every other frame defines decoys; the observed winner must be the reference model's first match, the empty subset must raise, a winner bound to None still wins, and an Environment instance is used as is (465 configurations).",
   note="Trusts the reference order stated in the property; deeper env values and names defined through closures are not covered."),
 "C13": dict(design="3/C13", technique="exhaustive enumeration of level counts x reference/omit choices, of level permutations passed as levels=, and of coding assignments per formula; algebraic oracle and span comparison",
   text="Complete enumeration on the real code: Treatment(ref)/Sum(omit) for every level count 1..12, every reference/omitted level and the default over three level alphabets (strings, integers incl. -1/0, falsy strings) - shapes, rank with the constant, full span, indicator and zero-reference rows, zero column sums with a -1 row, labels; C/T/S(..., levels=<perm>) for all permutations of 1..5 (6) levels x every reference - order, default reference, columns; every formula of a 17-formula pool x all 48 assignments of codings to its two factors - the column space of the common and group matrices must not change; one encoding object reused across factors and level orders.",
   note="Rank decisions by SVD with gap check; the swap pool avoids the effect expressions recorded as C05 findings (their span is incomplete to begin with)."),
}
NOT_YET = {}
props = [json.loads(l) for l in open(os.path.join(V, "properties.jsonl"))]
checks = []
for p in props:
    pid = p["id"]
    if pid not in CHECKS:
        continue
    c = CHECKS[pid]
    checks.append({
        "property_id": pid,
        "quick_cmd": f"{PY} -m fmc check {pid} --tier quick",
        "thorough_cmd": f"{PY} -m fmc check {pid} --tier thorough",
        "evidence_file": f"/verif/evidence/{pid}.json",
        "replay_cmd_template": f"{PY} -m fmc replay {{path}}",
        "engine": "fmc",
        "level_claimed": {"category": "model_checking", "text": c["text"], "design_ref": f"DESIGN.md section {c['design']}"},
        "level_note": c["note"],
        "technique": c["technique"],
    })
na = [{"property_id": p["id"], "reason": NOT_YET.get(p["id"], "check not built yet in this round (planned: see DESIGN.md section 3); not claimed until it exists")}
      for p in props if p["id"] not in CHECKS]
m = {
 "version": 1,
 "setup_cmd": f"{PY} -m fmc selftest",
 "hooks": {"guard": "FORMULAE_VERIF", "enable": "n/a - the checks import /repo unmodified and observe state by introspection; no source hooks exist",
           "baseline_off_cmd": "cd /repo && /venv/bin/python -m pytest -ra -q -p no:cacheprovider --timeout=900 --continue-on-collection-errors",
           "source_commits": [], "add_only": True},
 "engines": [{"name": "fmc", "path": "/verif/fmc", "serves_properties": [c["property_id"] for c in checks],
              "kind_free_text": "hand-written bounded exhaustive explorer for Python: stateless enumeration of programs/inputs/configurations and explicit-state BFS over operation histories, run on the real formulae code against reference models"}],
 "checks": checks,
 "not_applicable": na,
 "notes": "All checks run /venv/bin/python against the working tree of /repo (FMC_REPO overrides). KNOWN_FINDINGS.txt lists recorded findings and fix commits.",
}
json.dump(m, open(os.path.join(V, "MANIFEST.json"), "w"), indent=1)
print("MANIFEST.json:", len(checks), "checks,", len(na), "not claimed")

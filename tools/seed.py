#!/usr/bin/env python3
"""Seeded-defect workflow.

  seed.py verify <dir>            confirm in a scratch worktree: demo passes on HEAD, patch applies, pinned suite
                                  still passes, demo fails with the patch
  seed.py run <dir> <Cxx> [...]   run the quick checks against a scratch worktree with the patch applied
                                  (FMC_REPO=<worktree>); prints which report a VIOLATION
The scratch worktree lives under /tmp and is removed afterwards.
"""
import json, os, subprocess, sys, tempfile, shutil

def sh(cmd, **kw):
    return subprocess.run(cmd, shell=True, capture_output=True, text=True, **kw)

def worktree():
    d = tempfile.mkdtemp(prefix="fmc_wt_", dir="/tmp")
    os.rmdir(d)
    r = sh(f"git -C /repo worktree add -q --detach {d} HEAD")
    assert r.returncode == 0, r.stderr
    return d

def drop(d):
    sh(f"git -C /repo worktree remove --force {d}")
    shutil.rmtree(d, ignore_errors=True)

def mut():
    """seed.py mut <relative file> <old text> <new text> <Cxx> [...]: ad-hoc textual mutation in a scratch worktree."""
    rel, old, new = sys.argv[2], sys.argv[3], sys.argv[4]
    wt = worktree()
    try:
        p = os.path.join(wt, rel)
        src = open(p).read()
        if src.count(old) < 1:
            print("pattern not found"); return 2
        open(p, "w").write(src.replace(old, new, 1))
        b = sh(f"python3 /verif/tools/baseline.py {wt}")
        print(b.stdout.strip().splitlines()[0])
        env = dict(os.environ, FMC_REPO=wt)
        for pid in sys.argv[5:]:
            r = subprocess.run(f"/venv/bin/python -m fmc check {pid} --tier quick", shell=True, cwd="/verif",
                               capture_output=True, text=True, env=env)
            first = next((l.strip() for l in r.stdout.splitlines() if l.startswith("  clause=")), "")
            print(f"mut {pid}: exit={r.returncode} {first[:250]}")
            if r.returncode not in (0, 1):
                print(r.stdout[-500:], r.stderr[-800:])
    finally:
        drop(wt)
    return 0

def main():
    if sys.argv[1] == "mut":
        return mut()
    cmd, sd = sys.argv[1], os.path.abspath(sys.argv[2])
    patch, demo = os.path.join(sd, "patch.diff"), os.path.join(sd, "demo.py")
    wt = worktree()
    try:
        if cmd == "verify":
            r0 = sh(f"/venv/bin/python {demo}", cwd=wt)
            a = sh(f"git -C {wt} apply {patch}")
            if a.returncode:
                a = sh(f"git -C {wt} apply -3 {patch}")
            print("apply:", "ok" if a.returncode == 0 else a.stderr[:300])
            b = sh(f"python3 /verif/tools/baseline.py {wt}")
            r1 = sh(f"/venv/bin/python {demo}", cwd=wt)
            print(f"demo clean exit={r0.returncode}  demo patched exit={r1.returncode}  {b.stdout.strip()}")
            ok = r0.returncode == 0 and r1.returncode != 0 and b.returncode == 0 and a.returncode == 0
            print("VERIFIED" if ok else "NOT VERIFIED")
            if not ok:
                print(r0.stdout[-300:], r0.stderr[-300:], r1.stdout[-300:], r1.stderr[-300:])
            return 0 if ok else 1
        if cmd == "keep":
            # seed.py keep <dir> <Cxx> [...]: verify, run the checks, store under /verif/seeded/<name>/
            name = os.path.basename(sd.rstrip("/"))
            r0 = sh(f"/venv/bin/python {demo}", cwd=wt)
            a = sh(f"git -C {wt} apply {patch}")
            b = sh(f"python3 /verif/tools/baseline.py {wt}")
            r1 = sh(f"/venv/bin/python {demo}", cwd=wt)
            ok = r0.returncode == 0 and r1.returncode != 0 and b.returncode == 0 and a.returncode == 0
            env = dict(os.environ, FMC_REPO=wt)
            det = {}
            for pid in sys.argv[3:]:
                r = subprocess.run(f"/venv/bin/python -m fmc check {pid} --tier quick", shell=True, cwd="/verif",
                                   capture_output=True, text=True, env=env)
                first = next((l.strip() for l in r.stdout.splitlines() if l.startswith("  clause=")), "")
                det[pid] = {"exit": r.returncode, "first": first[:300]}
            dst = os.path.join("/verif/seeded", name)
            os.makedirs(dst, exist_ok=True)
            for f in ("patch.diff", "demo.py"):
                shutil.copy(os.path.join(sd, f), dst)
            meta = json.load(open(os.path.join(sd, "meta.json")))
            meta["confirmed"] = {"patch_applies_to": sh("git -C /repo rev-parse --short HEAD").stdout.strip(),
                                 "demo_on_clean_tree_exit": r0.returncode, "demo_with_patch_exit": r1.returncode,
                                 "pinned_suite_with_patch": b.stdout.strip(), "verified": ok,
                                 "ran": "tools/seed.py keep (scratch worktree under /tmp, removed afterwards)"}
            meta["detected_by_quick_checks"] = det
            json.dump(meta, open(os.path.join(dst, "meta.json"), "w"), indent=1)
            print(name, "verified" if ok else "NOT VERIFIED", {k: v["exit"] for k, v in det.items()})
            return 0
        if cmd == "run":
            a = sh(f"git -C {wt} apply {patch}")
            if a.returncode:
                a = sh(f"git -C {wt} apply -3 {patch}")
            assert a.returncode == 0, a.stderr
            env = dict(os.environ, FMC_REPO=wt)
            res = {}
            for pid in sys.argv[3:]:
                r = subprocess.run(f"/venv/bin/python -m fmc check {pid} --tier quick", shell=True, cwd="/verif",
                                   capture_output=True, text=True, env=env)
                nv = sum(1 for l in r.stdout.splitlines() if l.startswith("VIOLATION"))
                first = next((l for l in r.stdout.splitlines() if l.startswith("  clause=")), "")
                res[pid] = r.returncode
                print(f"{os.path.basename(sd)} {pid}: exit={r.returncode} violations_printed={nv} {first[:260]}")
                if r.returncode not in (0, 1):
                    print(r.stdout[-800:], r.stderr[-800:])
            return 0
    finally:
        drop(wt)

sys.exit(main())

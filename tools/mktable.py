#!/usr/bin/env python3
"""Rewrite the table of DESIGN.md section 8.2 from the evidence files (run after the quick checks on /repo)."""
import json, os, re
V = os.path.dirname(os.path.dirname(os.path.abspath(__file__)))
rows = []
for i in range(1, 18):
    pid = f"C{i:02d}"
    e = json.load(open(os.path.join(V, "evidence", pid + ".json")))
    c = e["coverage"]
    rows.append(f"| {pid} | {e['tier']} | {c['evaluations']:,} | {c['states']:,} | {c['transitions']:,} | {c['traces_validated_against_impl']:,} | {c['distinct_nontrivial']:,} | {e.get('wall_s', 0):.0f} s |".replace(",", " "))
table = ("| id | tier | cases evaluated | distinct states | calls into formulae | executions compared with the reference | non-trivial | wall (16 cores) |\n|---|---|---|---|---|---|---|---|\n" + "\n".join(rows))
p = os.path.join(V, "DESIGN.md")
s = open(p).read()
a = s.index("### 8.2 ")
b = s.index("### 8.3 ")
head = "### 8.2 What each check enumerates (measured on this tree by the last committed run; the `rule` string of each evidence file says what the cases are)\n\n"
s = s[:a] + head + table + "\n\nEarly numbers (round 1, before the waves of section 8.4-8.14) were 10-50 times smaller; the growth is the input dimensions and histories those sections list.\n\n" + s[b:]
open(p, "w").write(s)
print(table)
